NOT_APPLICABLE = {
    "C06": "Parse fidelity is a pure function string -> tree; there is no schedule, clock, fault, history or I/O for a simulator to own (the lexer goroutine is a deterministic single-channel pipeline), so simulation would only be input generation under another name.",
    "C07": "Format-preserves-meaning is a pure function of the input text (parse . print . parse); the property does not quantify over crashes of --fmt and nothing in it depends on interleaving, time or faults.",
    "C11": "Idempotence of the formatter is a pure function of the input text; no state, schedule or fault is involved.",
    "C15": "Comment/docstring preservation is a pure function of the input text; no state, schedule or fault is involved.",
    "C16": "The token-tiling invariant is a pure function of the input string observed on a deterministic token stream; no state, schedule or fault is involved.",
}
PENDING = {p: "not claimed yet: the simulated scenario for this property is designed (DESIGN.md section 5) but its check is still being built" for p in
           ["C01", "C02", "C03", "C05", "C08", "C09", "C10", "C12", "C13", "C14", "C17", "C19", "C20"]}

TEXT = {
    "C04": {
        "technique": "deterministic simulation: seeded scheduler over every channel rendezvous of the hash worker pool + relational oracle",
        "design_ref": "DESIGN.md section 5 C04, section 3.3",
        "level_text": "Seeded exploration of interleavings: the real hash.New().Hash runs in a synctest bubble where every goroutine parks before each channel operation and the simulator releases exactly one per step from a PRNG; lists over a confusable path universe are re-hashed under other permutations, schedules, worker counts (CPU affinity 1/2/4/16) and without directory entries (digest must be equal) and after single edits edit/rename/add/remove/swap/replace (digest must differ). Sampling, not enumeration: a clean batch is evidence, not proof.",
        "level_note": "Trusted: SHA-256 is collision free; every channel operation in hash.Hash is preceded by a simhook.Yield; the generator's path universe (no path embedding raw digest bytes).",
    },
    "C18": {
        "technique": "deterministic simulation with fault injection: seeded scheduler + open/read errors, missing/dangling entries, unlink at every scheduler step; -race side mode under the real scheduler",
        "design_ref": "DESIGN.md section 5 C18, section 3.3",
        "level_text": "Fault enumeration inside seeded schedules: for every list of size <= 6 every position of one faulty entry x every fault kind (never-existing path, dangling link, ENOENT/EACCES/EMFILE/EIO at open, EIO mid-read, file unlinked by the simulator at every scheduler step of the dry-run trace in the thorough tier) plus random larger lists (to 4*NumCPU and one 10^4 list) with up to two faults; the scheduler detects deadlock (nothing runnable before return), leaked goroutines (blocked at bubble end) and livelock (step budget) by construction; a panic in a worker goroutine kills the worker process and is attributed through the case journal.",
        "level_note": "Trusted: synctest's durable-blocking detection; Linux unlink-after-open semantics; data races are only looked for by the race-detector side mode under the real scheduler (a serialising scheduler hides them).",
    },
}
