NOT_APPLICABLE = {
    "C06": "Parse fidelity is a pure function string -> tree; there is no schedule, clock, fault, history or I/O for a simulator to own (the lexer goroutine is a deterministic single-channel pipeline), so simulation would only be input generation under another name.",
    "C07": "Format-preserves-meaning is a pure function of the input text (parse . print . parse); the property does not quantify over crashes of --fmt and nothing in it depends on interleaving, time or faults.",
    "C11": "Idempotence of the formatter is a pure function of the input text; no state, schedule or fault is involved.",
    "C15": "Comment/docstring preservation is a pure function of the input text; no state, schedule or fault is involved.",
    "C16": "The token-tiling invariant is a pure function of the input string observed on a deterministic token stream; no state, schedule or fault is involved.",
}
PENDING = {}

TEXT = {
    "C04": {
        "technique": "deterministic simulation: seeded scheduler over every channel rendezvous of the hash worker pool + relational oracle",
        "design_ref": "DESIGN.md section 5 C04, section 3.3",
        "level_text": "Seeded exploration of interleavings: the real hash.New().Hash runs in a synctest bubble where every goroutine parks before each channel operation and the simulator releases exactly one per step from a PRNG; lists over a confusable path universe are re-hashed under other permutations, schedules, worker counts (CPU affinity 1/2/4/16) and without directory entries (digest must be equal) and after single edits edit/rename/add/remove/swap/replace (digest must differ). Sampling, not enumeration: a clean batch is evidence, not proof.",
        "level_note": "Trusted: SHA-256 is collision free; every channel operation in hash.Hash is preceded by a simhook.Yield; the generator's path universe (no path embedding raw digest bytes).",
    },
    "C18": {
        "technique": "deterministic simulation with fault injection: seeded scheduler + open/read errors, missing/dangling entries, unlink at every scheduler step; -race side mode under the real scheduler",
        "design_ref": "DESIGN.md section 5 C18, section 3.3",
        "level_text": "Fault enumeration inside seeded schedules: for every list of size <= 6 every position of one faulty entry x every fault kind (never-existing path, dangling link, ENOENT/EACCES/EMFILE/EIO at open, EIO mid-read, file unlinked by the simulator at every scheduler step of the dry-run trace in the thorough tier) plus random larger lists (to 4*NumCPU and one 10^4 list) with up to two faults; the scheduler detects deadlock (nothing runnable before return), leaked goroutines (blocked at bubble end) and livelock (step budget) by construction; a panic in a worker goroutine kills the worker process and is attributed through the case journal. Two system-level parts: the same lists as literal dependencies of a task through the in-process CLI, and cachehist histories (missing literal dependencies, dangling symbolic links listed by a glob) in which the invocation must stop with a message.",
        "level_note": "Trusted: synctest's durable-blocking detection; Linux unlink-after-open semantics; data races are only looked for by the race-detector side mode under the real scheduler (a serialising scheduler hides them).",
    },
    "C01": {
        "technique": "deterministic simulation: seeded operation histories against the real CLI in-process, reference model last[T] as oracle",
        "design_ref": "DESIGN.md section 5 C01, section 4",
        "level_text": "Seeded exploration of histories: each run generates a spokfile of 1-3 tasks and 4-14 operations (edit/revert/delete files, runs of task subsets with flags, command failures, cache removal); every invocation is the real CLI (flag parsing, app, file, task, cache, hash, mvdan/sh, parser) inside a synctest bubble with a seeded hash schedule and a seeded dag iteration order; after every invocation each reported skip is checked against the model (inputs == inputs of the last success, cache not removed since). Sampling, not enumeration.",
        "level_note": "Trusted: the side-effect log written by the generated commands is the ground truth for what ran; the reference glob matcher; tmpfs. Commands never modify inputs.",
    },
    "C02": {
        "technique": "deterministic simulation: same histories, converse direction of the reference model (bounded liveness once faults stop)",
        "design_ref": "DESIGN.md section 5 C02",
        "level_text": "Same simulated histories as C01 in the crash-free configuration; whenever the model says a task last succeeded on exactly the current inputs (>= 1 regular file, no --force, cache not removed) none of its commands may run and it must be reported skipped, whatever the other tasks of the run do; tasks without file dependencies must always run. Sampling, not enumeration.",
        "level_note": "Trusted: as C01. Where the specification is silent (dependencies that match no regular file) either outcome is accepted and counted.",
    },
    "C09": {
        "technique": "deterministic simulation: command exit statuses injected through control scripts at any position of seeded histories",
        "design_ref": "DESIGN.md section 5 C09",
        "level_text": "Seeded histories over 1-4 tasks x 1-2 commands where control scripts make any command exit with a status from {1,2,127,128,255} or random 1..255, in requested tasks and dependencies, under plain/--quiet/--json/--force, followed by further runs: the invocation must fail, the error must name a task that really executed a failing command, and a task whose latest execution failed is never reported skipped unless the model allows it.",
        "level_note": "Trusted: at level L2 'exits non-zero' is observed as Execute() returning an error; 1 case in 40 (quick) / 20 (thorough) is repeated at level L3 against the real binary, where the process exit status and stderr are observed directly (cmd/spok/main.go included).",
    },
    "C14": {
        "technique": "deterministic simulation: --force drawn at any position of seeded histories, reference model as oracle",
        "design_ref": "DESIGN.md section 5 C14",
        "level_text": "Same simulated histories with --force four times as frequent, including first runs, runs after failures and after cache removal: in a successful forced invocation every closure task must have executed all its commands and none may be reported skipped; afterwards every reported skip must still be legal with last[] updated by forced successes too.",
        "level_note": "Trusted: as C01.",
    },
    "C03": {
        "technique": "deterministic simulation: seeded dag iteration order (instrumented collections/dag) + seeded graphs/requests/failures against the real CLI, order read from the side-effect log",
        "design_ref": "DESIGN.md section 5 C03, section 3.5",
        "level_text": "Seeded exploration: dependency graphs over n <= 4 tasks drawn from all edge sets (self-loops included) plus sparse graphs up to 8 tasks, every kind of request list, undefined/duplicate names, one failing command in half the runs, file dependencies and a second run in 30%; the map-iteration order inside the topological sort is drawn from the simulator's PRNG (so a given seed replays the same order). Oracle: closure exactly once (executed completely or reported skipped), dependencies first (log and --json), nothing outside the closure, nothing twice, and undefined/duplicate/cyclic selections are an error that runs nothing. Small spaces (n=2: 16 graphs, n=3: 512) are covered many times with different permutations; still sampling.",
        "level_note": "Trusted: the instrumented copy of collections/dag (two iteration sites changed) behaves like the original up to iteration order; the side-effect log as ground truth.",
    },
    "C10": {
        "technique": "deterministic simulation with crash/torn-write enumeration: dry run lists every crash point and cache write, then kill at each point and at byte prefixes of each write, then seeded continuations judged by the reference model",
        "design_ref": "DESIGN.md section 5 C10, section 3.4",
        "level_text": "Fault enumeration per sampled history: for every generated prefix the killed invocation is first run dry to list all crash points (cache.init.*, run.task.before/after, task.cmd.before/after, run.dump.before/after) and all cache writes; it is then repeated from the same disk snapshot once per crash point and once per byte prefix of each cache write (quick: k in {0,1,len/2,len-1,len}+4 seeded; thorough: every k for a third of the cases), dying there or (1 in 3) returning ENOSPC/EIO, and twice per write dying with the complete new contents under a temporary-looking sibling name and cache.json untouched (a kill between write-temporary and rename); each is followed by 2-3 continuations of edits/reverts and unforced runs. A later reported skip must be legal w.r.t. last[] updated with what completed before the kill, a later failure must mention the cache. Exhaustive over crash points per history, sampling over histories.",
        "level_note": "Trusted: at level L2 kill = sentinel panic at a simhook.Point (deferred calls run but write no project state) and torn write = O_TRUNC + k bytes, as os.WriteFile would leave it; 1 case in 15 (quick) / 5 (thorough) is repeated at level L3 with a real SIGKILL sent from inside every command position of the run (kill -9 $$), cache.json truncated between invocations, and the whole invocation run under a file size limit (RLIMIT_FSIZE via prlimit: every write beyond k bytes is cut short and fails with EFBIG, a full disk inside the cache writes). No power-loss semantics.",
    },
    "C17": {
        "technique": "deterministic simulation: seeded directory chains, bounded-liveness step budget at the ReadDir seam, ReadDir failure injection",
        "design_ref": "DESIGN.md section 5 C17",
        "level_text": "Seeded exploration of directory chains of depth <= 4 (each level: nothing / entries sorting before and/or after / regular spokfile / directory named spokfile), every start level, stop at any level or an unrelated directory, start directory sometimes removed; the real file.Find (and the in-process CLI with cwd=start, HOME=stop) runs with a step budget of depth(start)+2 directory reads enforced at simhook.Point(find.readdir), so non-termination is detected as a budget overrun without a wall clock. The space per depth is small and is covered many times over; still sampling.",
        "level_note": "Trusted: the sandbox holds no spokfile above the simulated $HOME; tmpfs ReadDir ordering (sorted by name, as os.ReadDir guarantees).",
    },
    "C05": {
        "technique": "deterministic simulation: evolving seeded disk trees expanded by the real file/doublestar code, independent reference matcher as oracle",
        "design_ref": "DESIGN.md section 5 C05",
        "level_text": "Seeded exploration: trees are subsets of a 16-path pool (hidden files/dirs at top level and nested, names sorting before/after the dot entries, empty dirs) x 22 patterns as dependency and output patterns; the tree evolves for 1-4 steps and every state is expanded twice through fresh file.New + SpokFile.Run; regular files of the expansion must equal the reference matcher's answer and be identical on re-expansion. End to end the same meaning is exercised inside cachehist (C01/C02 with glob dependencies).",
        "level_note": "Trusted: the reference matcher (60 lines, own implementation) for the generator's pattern language; os.Lstat to tell regular files from directories.",
    },
    "C12": {
        "technique": "deterministic simulation: seeded project trees and output declarations, removal-veto/fault seam, full before/after disk snapshots as oracle",
        "design_ref": "DESIGN.md section 5 C12",
        "level_text": "Seeded exploration of project trees x output declarations (literal, named via string/join variables, globs, degenerate values '', '.', '..', the project directory, 'spokfile') x with/without a clean task x with/without an earlier run x root/nested cwd x optional EACCES on the removal of one designated path; a full snapshot of $HOME before and after must differ exactly by the designated set and the cache directory on success, by a subset of it on failure; any attempt to remove the spokfile, its directory, an ancestor or a path outside the sandbox is vetoed before it happens and reported. Sampling, not enumeration.",
        "level_note": "Trusted: every removal goes through the simhook.Remove seam; snapshot comparison (path, mode, content); the reference glob matcher.",
    },
    "C13": {
        "technique": "deterministic simulation: the ambient process environment and .env are part of the seeded world (collisions injected), direct-substitution model as oracle",
        "design_ref": "DESIGN.md section 5 C13",
        "level_text": "Seeded exploration: 0-5 variables whose names collide with names set in the simulated ambient environment and/or the project's .env (the simulator owns the whole process environment of every invocation), values over printable ASCII incl. spaces, $, {, }, {{, #; kinds string, join, exec with surrounding whitespace, failing exec; commands mixing literals with {{.NAME}} references, `echo \"$NAME\"` for every variable and a variable-free line, run through the real CLI with --json (or listed with --vars). Oracle: cmd == textual substitution; the environment echo prints the model value whatever the ambient environment and .env hold; failing exec => error and nothing runs.",
        "level_note": "Trusted: mvdan/sh's echo builtin prints its argument verbatim for the generated value alphabet; the model's join = filepath.Join of absolute arguments.",
    },
    "C19": {
        "technique": "deterministic simulation with fault injection: seeded action sequences over evolving project trees, a cache file left damaged by an interrupted earlier run, a file size limit (disk full) striking inside the writes of one invocation of the real binary; per-invocation disk snapshot diff against the action's write frame",
        "design_ref": "DESIGN.md section 5 C19",
        "level_text": "Seeded exploration: project trees with decoys x valid / syntactically broken / load-failing spokfiles x sequences of 2-6 invocations over every action and flag combination from the root and nested directories (state created by one action — cache directory, .gitignore lines, a demo spokfile in a nested directory — is present for the next); after every invocation the full snapshot diff of $HOME must lie inside {.spok/** next to the spokfile in use} plus the action's own frame (--fmt: the spokfile, only if it parses and loads; --init: a new spokfile and an appended .gitignore in cwd, nothing if a spokfile exists; everything else: nothing). One case in eight damages the cache file (half, empty, garbage) before one invocation; one case in ten runs one invocation (biased to --fmt and --init) under a file size limit of 1-1000 bytes at level L3 (real binary under prlimit --fsize): a write that fails half way may leave the file it was writing incomplete, never anything outside the frame.",
        "level_note": "Trusted: snapshot comparison (path, mode, content) of the whole simulated $HOME; the side-effect log and control scripts live outside $HOME. The file size limit exists at level L3 only (it would hit the simulator's own files in-process); those cases always run at L3 as well.",
    },
    "C20": {
        "technique": "deterministic simulation: seeded first and repeated runs under the seeded dag order, report compared with the side-effect log written by the commands",
        "design_ref": "DESIGN.md section 5 C20",
        "level_text": "Seeded exploration: spokfiles of 1-5 tasks with marker-printing commands, docstrings, variables, optional default task; sequences of invocations so that skipped tasks appear; the --json document is compared with ground truth that does not come from spok (markers appended to a log by the commands themselves, the abstract program): exactly one document, exactly the closure once each, execution order == log order, skipped flag == no marker, per command cmd/stdout/stderr/status; --quiet prints nothing; --show sorted complete with docstrings; --vars complete; no arguments runs default or lists.",
        "level_note": "Trusted: the marker log as ground truth for what ran and in which order; whitespace-normalised comparison of the listing tables.",
    },
    "C08": {
        "technique": "deterministic simulation with storage-fault injection on the spokfile (truncation at every byte, byte flips, splices) + step budgets at parser/lexer seams; bounded claim",
        "design_ref": "DESIGN.md section 5 C08",
        "level_text": "Bounded: the input space of C08 is every byte string; what simulation honestly delivers is the fault view — a valid stored spokfile damaged by a crash in the middle of a write (every prefix), a flipped byte, a spliced or lost line — parsed twice by the real lexer goroutine + parser in a bubble with step budgets (parser.next <= 4*len+16, lexer.next <= 64*(len+1)), and loaded through the CLI. Oracle: no panic (process journal), terminates within budget, same result twice, a syntax error cites a line in range and quotes it. Inputs that are not corruptions of valid programs are NOT explored.",
        "level_note": "Trusted: budgets derived from the hook sites (one parser.next per token, lexer.next per rune plus peeks); journal attribution of process-killing panics in the lexer goroutine.",
    },
}
