// Package spoksim is the deterministic simulator for FollowTheProcess/spok.
// See /verif/DESIGN.md. Everything random is derived from one integer
// (VERIF_SEED) through Rng; nothing here reads a clock to make a decision.
package spoksim

import (
	"crypto/sha256"
	"encoding/binary"
	"encoding/hex"
	"encoding/json"
	"fmt"
	"math/rand/v2"
	"sort"
	"strings"
)

// ---------------------------------------------------------------- PRNG

// Rng is the only source of randomness. A stream is identified by
// (seed, label, index) so that run i of scenario s under seed k is the same
// execution whichever worker process happens to run it.
type Rng struct{ r *rand.Rand }

// NewRng derives an independent stream.
func NewRng(seed uint64, label string, idx uint64) *Rng {
	h := sha256.New()
	var b [8]byte
	binary.LittleEndian.PutUint64(b[:], seed)
	h.Write(b[:])
	h.Write([]byte(label))
	binary.LittleEndian.PutUint64(b[:], idx)
	h.Write(b[:])
	sum := h.Sum(nil)
	return &Rng{r: rand.New(rand.NewPCG(binary.LittleEndian.Uint64(sum[0:8]), binary.LittleEndian.Uint64(sum[8:16])))}
}

// Intn returns a value in [0,n); n <= 1 returns 0 without drawing.
func (r *Rng) Intn(n int) int {
	if n <= 1 {
		return 0
	}
	return r.r.IntN(n)
}

// Range returns a value in [lo,hi].
func (r *Rng) Range(lo, hi int) int { return lo + r.Intn(hi-lo+1) }

// Chance is true with probability num/den.
func (r *Rng) Chance(num, den int) bool { return r.Intn(den) < num }

// Uint64 returns a raw value (used to derive sub-seeds).
func (r *Rng) Uint64() uint64 { return r.r.Uint64() }

// Perm returns a permutation of [0,n).
func (r *Rng) Perm(n int) []int { return r.r.Perm(n) }

// Pick returns one element of xs.
func Pick[T any](r *Rng, xs []T) T { return xs[r.Intn(len(xs))] }

// Shuffled returns a shuffled copy.
func Shuffled[T any](r *Rng, xs []T) []T {
	out := append([]T(nil), xs...)
	p := r.Perm(len(out))
	for i, j := range p {
		out[i] = xs[j]
	}
	return out
}

// Subset returns each element with probability num/den (order kept).
func Subset[T any](r *Rng, xs []T, num, den int) []T {
	var out []T
	for _, x := range xs {
		if r.Chance(num, den) {
			out = append(out, x)
		}
	}
	return out
}

// ---------------------------------------------------------------- schedule choices

// Sched says how execution-time choices (which parked goroutine runs next,
// dag iteration permutations) are made for one case. Explicit Picks win over
// Seed; when Picks run out the answer is 0 (fifo / identity).
type Sched struct {
	Policy string `json:"policy"`          // "random" | "fifo" | "picks"
	Seed   uint64 `json:"seed,omitempty"`  // for "random"
	Picks  []int  `json:"picks,omitempty"` // for "picks": recorded choices, replayed in order
}

// Chooser makes and records the choices of one execution.
type Chooser struct {
	policy string
	rng    *Rng
	picks  []int
	pos    int
	Rec    []int // everything returned, in order: an explicit "picks" schedule reproduces the run
}

// NewChooser builds the chooser for invocation inv of a case.
func NewChooser(s Sched, inv int) *Chooser {
	c := &Chooser{policy: s.Policy}
	switch s.Policy {
	case "random":
		c.rng = NewRng(s.Seed, "sched", uint64(inv))
	case "picks":
		c.picks = s.Picks
	}
	return c
}

// Intn chooses in [0,n).
func (c *Chooser) Intn(n int) int {
	v := 0
	if n > 1 {
		switch c.policy {
		case "random":
			v = c.rng.Intn(n)
		case "picks":
			if c.pos < len(c.picks) {
				v = c.picks[c.pos] % n
				if v < 0 {
					v = 0
				}
			}
			c.pos++
		}
	}
	c.Rec = append(c.Rec, v)
	return v
}

// Perm chooses a permutation of [0,n) (Fisher-Yates over Intn so that an
// all-zero pick list is the identity).
func (c *Chooser) Perm(n int) []int {
	p := make([]int, n)
	for i := range p {
		p[i] = i
	}
	for i := 0; i < n-1; i++ {
		j := i + c.Intn(n-i)
		p[i], p[j] = p[j], p[i]
	}
	return p
}

// ---------------------------------------------------------------- results

// Violation is one failed predicate of one property.
type Violation struct {
	Property  string `json:"property"`
	Predicate string `json:"predicate"`
	Message   string `json:"message"`
	Signature string `json:"signature"` // abstract shape used to match known findings
}

func (v Violation) key() string { return v.Property + "/" + v.Predicate }

// Result is what executing one case produced.
type Result struct {
	Violations []Violation    // predicates of the property under check that failed
	Abandoned  string         // non-empty: a predicate of another property failed first; the run is not judged
	Events     []string       // event log: identical logs == identical executions
	Counters   map[string]int // fault/probe/step counters
	Distinct   []string       // keys of the distinct non-trivial things this case reached (see each scenario's rule)
	Ops        int            // operations / invocations executed
	Steps      int            // scheduler steps
	Pinned     any            // optional: the same case with the violating fault made explicit (starting point for shrinking)
	Picks      [][]int        // optional: the scheduler/dag choices of every controlled execution of the case, in order
}

// SchedPinner is implemented by scenarios whose schedules can be made explicit
// (policy "picks") and then minimised pick by pick.
type SchedPinner interface {
	// PinSchedules returns a copy of c whose schedules are the explicit pick lists recorded in r, and
	// pointers to those schedules inside the copy.
	PinSchedules(c any, r *Result) (any, []*Sched)
}

func newResult() *Result { return &Result{Counters: map[string]int{}} }

func (r *Result) count(k string) { r.Counters[k]++ }
func (r *Result) add(k string, n int) {
	if n != 0 {
		r.Counters[k] += n
	}
}

// curRoot is the sandbox root; it is erased from event logs so that logs of
// the same execution in different sandboxes are byte-identical.
var curRoot string

func (r *Result) event(format string, a ...any) {
	e := fmt.Sprintf(format, a...)
	if curRoot != "" {
		e = strings.ReplaceAll(e, curRoot, "$W")
	}
	r.Events = append(r.Events, e)
}
func (r *Result) violate(prop, pred, sig, format string, a ...any) {
	msg := fmt.Sprintf(format, a...)
	if curRoot != "" {
		msg = strings.ReplaceAll(msg, curRoot, "$W") // the same message from every sandbox directory
	}
	r.Violations = append(r.Violations, Violation{Property: prop, Predicate: pred, Message: msg, Signature: sig})
}
func (r *Result) distinct(k string) { r.Distinct = append(r.Distinct, k) }

// EventDigest is the identity of an execution.
func (r *Result) EventDigest() string {
	h := sha256.New()
	for _, e := range r.Events {
		h.Write([]byte(e))
		h.Write([]byte{'\n'})
	}
	return hex.EncodeToString(h.Sum(nil))
}

// first returns the first violation of prop, if any.
func (r *Result) first(prop string) *Violation {
	for i := range r.Violations {
		if r.Violations[i].Property == prop {
			return &r.Violations[i]
		}
	}
	return nil
}

// ---------------------------------------------------------------- scenarios

// Scenario is one simulated workload + oracle.
type Scenario interface {
	Name() string
	// Props lists the properties whose predicates this scenario evaluates.
	Props() []string
	// Gen builds run idx of a batch. It must draw from r only.
	Gen(r *Rng, cfg GenConfig) any
	// Decode parses a case from a replay file.
	Decode(raw json.RawMessage) (any, error)
	// Exec runs the case against the real code in world w and judges prop.
	Exec(w *World, c any, prop string) *Result
	// Shrinks returns one-step simplifications of c, most aggressive first.
	Shrinks(c any) []any
	// Rule describes generation and the distinct_nontrivial measure (evidence).
	Rule(prop string) string
}

// L3Wanter is implemented by scenarios some of whose cases carry a fault that exists only at level L3 (the real
// binary as a child process): such a case is always executed at L3 as well, not only when sampled.
type L3Wanter interface {
	WantsL3(c any) bool
}

// GenConfig carries the tier and the property into generation.
type GenConfig struct {
	Tier   string // quick | thorough
	Prop   string
	Idx    uint64
	NumCPU int
}

var scenarios = map[string]Scenario{}

func register(s Scenario) { scenarios[s.Name()] = s }

// ---------------------------------------------------------------- helpers

func sortedKeys[V any](m map[string]V) []string {
	ks := make([]string, 0, len(m))
	for k := range m {
		ks = append(ks, k)
	}
	sort.Strings(ks)
	return ks
}

func jsonStr(v any) string {
	b, err := json.Marshal(v)
	if err != nil {
		return fmt.Sprintf("<json error %v>", err)
	}
	return string(b)
}

func short(s string, n int) string {
	s = strings.ReplaceAll(s, "\n", "\\n")
	if len(s) > n {
		return s[:n] + "…"
	}
	return s
}

func cloneJSON[T any](v T) T {
	b, err := json.Marshal(v)
	if err != nil {
		panic(err)
	}
	var out T
	if err := json.Unmarshal(b, &out); err != nil {
		panic(err)
	}
	return out
}

func shortHash(s string) string {
	sum := sha256.Sum256([]byte(s))
	return hex.EncodeToString(sum[:8])
}

// traceHash identifies a schedule; sandbox paths are erased first so that the
// same execution in another sandbox directory has the same identity.
func traceHash(trace []string) string {
	t := strings.Join(trace, " ")
	if curRoot != "" {
		t = strings.ReplaceAll(t, curRoot, "$W")
	}
	return shortHash(t)
}

// normHash hashes text after erasing the sandbox root from it.
func normHash(s string) string {
	if curRoot != "" {
		s = strings.ReplaceAll(s, curRoot, "$W")
	}
	return shortHash(s)
}
