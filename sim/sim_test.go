package spoksim

import (
	"encoding/json"
	"fmt"
	"os"
	"path/filepath"
	"runtime"
	"sort"
	"strconv"
	"strings"
	"testing"
	"time"
)

// WorkerOut is what one worker process reports to the driver.
type WorkerOut struct {
	Scenario   string            `json:"scenario"`
	Prop       string            `json:"prop"`
	NumCPU     int               `json:"numcpu"`
	Runs       int               `json:"runs"`
	Ops        int               `json:"ops"`
	Steps      int               `json:"steps"`
	Counters   map[string]int    `json:"counters"`
	Distinct   []string          `json:"distinct"`
	Samples    []json.RawMessage `json:"samples"`
	Violation  *Report           `json:"violation,omitempty"`
	Known      []string          `json:"known,omitempty"`
	KnownCount int               `json:"known_count"`
	Abandoned  int               `json:"abandoned"`
	AbandonedS []string          `json:"abandoned_samples,omitempty"`
	Canary     int               `json:"canary_runs"`
	CanaryBad  string            `json:"canary_mismatch,omitempty"`
	Harness    string            `json:"harness_error,omitempty"`
	WallS      float64           `json:"wall_s"`
	Truncated  bool              `json:"budget_truncated"`
	Rule       string            `json:"rule"`
	Replayed   *ReplayVerdict    `json:"replayed,omitempty"`
	Digests    []string          `json:"event_digests,omitempty"`
	Corpus     []string          `json:"corpus_digests,omitempty"` // C04: digests of the shared read-only corpus lists (compared across NumCPU classes by the driver)
}

// Report is a minimised violation, i.e. the replay file.
type Report struct {
	Property    string          `json:"property"`
	Scenario    string          `json:"scenario"`
	Predicate   string          `json:"predicate"`
	Message     string          `json:"message"`
	Signature   string          `json:"signature"`
	Seed        uint64          `json:"seed"`
	Idx         uint64          `json:"idx"`
	Tier        string          `json:"tier"`
	NumCPU      int             `json:"numcpu"`
	Level       string          `json:"level,omitempty"` // "" = L1/L2 (in-process, simulated), "L3" = real binary as a child process
	ShrinkSteps int             `json:"shrink_steps"`
	Case        json.RawMessage `json:"case"`
	Original    json.RawMessage `json:"original_case,omitempty"`
	EventDigest string          `json:"event_digest"`
	Events      []string        `json:"events"`
}

// ReplayVerdict is the outcome of replaying a replay file.
type ReplayVerdict struct {
	Reproduced  bool   `json:"reproduced"`
	SameEvents  bool   `json:"same_events"`
	Predicate   string `json:"predicate"`
	Message     string `json:"message"`
	EventDigest string `json:"event_digest"`
}

func envInt(name string, def int) int {
	if v := os.Getenv(name); v != "" {
		n, err := strconv.Atoi(v)
		if err == nil {
			return n
		}
	}
	return def
}

func envU64(name string, def uint64) uint64 {
	if v := os.Getenv(name); v != "" {
		n, err := strconv.ParseUint(v, 10, 64)
		if err == nil {
			return n
		}
	}
	return def
}

// l3Scenarios can run unchanged against the real binary (no in-process-only faults, no removal veto needed).
var l3Scenarios = map[string]bool{"cachehist": true, "graph": true, "vars": true, "actions": true, "crash": true}

func knownKey(prop, pred, sig string) string { return prop + "|" + pred + "|" + sig }

func loadKnown(path string) map[string]string {
	out := map[string]string{}
	if path == "" {
		return out
	}
	b, err := os.ReadFile(path)
	if err != nil {
		return out
	}
	var kf struct {
		Known []struct {
			Property  string `json:"property"`
			Predicate string `json:"predicate"`
			Signature string `json:"signature"`
			What      string `json:"what"`
		} `json:"known"`
	}
	if err := json.Unmarshal(b, &kf); err != nil {
		panic(harnessError{"known findings file does not parse: " + err.Error()})
	}
	for _, k := range kf.Known {
		out[knownKey(k.Property, k.Predicate, k.Signature)] = k.What
	}
	return out
}

// TestSim is the worker entry point; the driver (/verif/check) runs it in
// several processes with disjoint run indices.
func TestSim(t *testing.T) {
	scName := os.Getenv("SIM_SCENARIO")
	if scName == "" {
		t.Skip("SIM_SCENARIO not set (run through /verif/check)")
	}
	sc, ok := scenarios[scName]
	if !ok {
		t.Fatalf("unknown scenario %q", scName)
	}
	prop := os.Getenv("SIM_PROP")
	tier := os.Getenv("SIM_TIER")
	if tier == "" {
		tier = "quick"
	}
	seed := envU64("SIM_SEED", 1)
	from, to, stride := envInt("SIM_FROM", 0), envInt("SIM_TO", 100), envInt("SIM_STRIDE", 1)
	outPath := os.Getenv("SIM_OUT")
	journal := os.Getenv("SIM_JOURNAL")
	scratch := os.Getenv("SIM_SCRATCH")
	if scratch == "" {
		scratch = os.TempDir()
	}
	if fixed := os.Getenv("SIM_FIXED_SCRATCH"); fixed != "" {
		scratch = fixed // determinism proof: every process uses the same sandbox path, one after the other
	}
	wantDigests := os.Getenv("SIM_EVENT_DIGESTS") != ""
	dumpCase := os.Getenv("SIM_DUMP_CASE") != ""
	deadline := time.Duration(envInt("SIM_WALL_S", 3600)) * time.Second
	canaryEvery := envInt("SIM_CANARY", 50)
	known := loadKnown(os.Getenv("SIM_KNOWN"))
	replayDir := os.Getenv("SIM_REPLAY_DIR")

	out := &WorkerOut{Scenario: scName, Prop: prop, NumCPU: runtime.NumCPU(), Counters: map[string]int{}, Rule: sc.Rule(prop)}
	start := time.Now()
	w := NewWorld(t, scratch)
	w.NumCPU = runtime.NumCPU()
	defer w.Close()

	var jf *os.File
	if journal != "" {
		var err error
		jf, err = os.OpenFile(journal, os.O_CREATE|os.O_WRONLY|os.O_APPEND, 0o644)
		if err != nil {
			t.Fatal(err)
		}
		defer jf.Close()
	}
	writeOut := func() {
		out.WallS = time.Since(start).Seconds()
		if outPath != "" {
			b, _ := json.Marshal(out)
			os.WriteFile(outPath, b, 0o644)
		}
	}
	defer func() {
		if r := recover(); r != nil {
			if he, ok := r.(harnessError); ok {
				out.Harness = he.msg
				writeOut()
				return
			}
			panic(r)
		}
	}()

	if rp := os.Getenv("SIM_REPLAY"); rp != "" {
		out.Replayed = replayFile(t, w, sc, rp, prop)
		writeOut()
		return
	}

	if corpus := os.Getenv("SIM_CORPUS"); corpus != "" && scName == "hashsched" && prop == "C04" {
		out.Corpus = corpusDigests(w, corpus, seed, from)
	}
	distinct := map[string]struct{}{}
	knownSeen := map[string]int{}
	l3Every := envInt("SIM_L3_EVERY", 0)
	for idx := from; idx < to; idx += stride {
		if time.Since(start) > deadline {
			out.Truncated = true
			break
		}
		if jf != nil {
			fmt.Fprintf(jf, "START %d\n", idx)
		}
		r := NewRng(seed, scName+"/"+prop, uint64(idx))
		c := sc.Gen(r, GenConfig{Tier: tier, Prop: prop, Idx: uint64(idx), NumCPU: w.NumCPU})
		if dumpCase {
			b, _ := json.Marshal(c)
			os.WriteFile("case.json", b, 0o644)
		}
		w.Reset()
		res := sc.Exec(w, c, prop)
		if jf != nil {
			fmt.Fprintf(jf, "END %d\n", idx)
		}
		out.Runs++
		if wantDigests {
			out.Digests = append(out.Digests, res.EventDigest())
		}
		out.Ops += res.Ops
		out.Steps += res.Steps
		for k, v := range res.Counters {
			out.Counters[k] += v
		}
		for _, d := range res.Distinct {
			distinct[d] = struct{}{}
		}
		if len(out.Samples) < 2 && (len(res.Distinct) > 0 || idx == from) {
			b, _ := json.Marshal(c)
			out.Samples = append(out.Samples, b)
		}
		if res.Abandoned != "" {
			out.Abandoned++
			if len(out.AbandonedS) < 3 {
				out.AbandonedS = append(out.AbandonedS, fmt.Sprintf("idx %d: %s", idx, res.Abandoned))
			}
		}
		if canaryEvery > 0 && (idx/stride)%canaryEvery == 0 && res.first(prop) == nil {
			w.Reset()
			again := sc.Exec(w, c, prop)
			out.Canary++
			if again.EventDigest() != res.EventDigest() && out.CanaryBad == "" {
				out.CanaryBad = fmt.Sprintf("idx %d: %s", idx, firstDiff(res.Events, again.Events))
			}
		}
		// level L3: the same case against the real binary (fidelity: main.go, real exit status, real process)
		wantsL3 := false
		if lw, ok := sc.(L3Wanter); ok {
			wantsL3 = lw.WantsL3(c)
		}
		if l3Every > 0 && l3Scenarios[scName] && SpokBin != "" && ((idx/stride)%l3Every == 0 || wantsL3) && res.first(prop) == nil && res.Abandoned == "" {
			w.Level = "L3"
			w.Reset()
			res3 := sc.Exec(w, c, prop)
			out.Counters["l3:cases"]++
			out.Counters["l3:invocations"] += res3.Ops
			for k, v := range res3.Counters {
				if strings.HasPrefix(k, "fault_fired:") || strings.HasPrefix(k, "probe:") {
					out.Counters["l3:"+k] += v
				}
			}
			for _, d := range res3.Distinct {
				if strings.HasPrefix(d, "L3|") {
					distinct[d] = struct{}{}
				}
			}
			if res3.Abandoned != "" {
				out.Counters["l3:abandoned"]++
			}
			if res3.first(prop) != nil {
				res = res3 // handled below, at level L3
			} else {
				w.Level = ""
			}
		}
		if v := res.first(prop); v != nil {
			// persist the unminimised violation first: if a shrink candidate kills the
			// process (a panic in a goroutine of the system under test) the driver still has it
			{
				cj, _ := json.Marshal(c)
				out.Violation = &Report{Property: v.Property, Scenario: scName, Predicate: v.Predicate, Message: v.Message + " [not minimised: the process died while shrinking]", Signature: v.Signature,
					Seed: seed, Idx: uint64(idx), Tier: tier, NumCPU: w.NumCPU, Level: w.Level, Case: cj, EventDigest: res.EventDigest(), Events: res.Events}
				writeOut()
				out.Violation = nil
				if jf != nil {
					fmt.Fprintf(jf, "SHRINK %d\n", idx)
				}
			}
			start, startRes := c, res
			if res.Pinned != nil {
				w.Reset()
				if pr := sc.Exec(w, res.Pinned, prop); pr.first(prop) != nil && pr.first(prop).Predicate == v.Predicate {
					start, startRes = res.Pinned, pr
				}
			}
			min, minRes, steps := shrinkCase(w, sc, start, prop, v.Predicate, startRes)
			if sp, ok := sc.(SchedPinner); ok {
				min, minRes, steps = shrinkSchedules(w, sc, sp, min, minRes, prop, v.Predicate, steps)
			}
			mv := minRes.first(prop)
			if what, isKnown := known[knownKey(mv.Property, mv.Predicate, mv.Signature)]; isKnown {
				out.KnownCount++
				line := fmt.Sprintf("KNOWN-FINDING: property=%s predicate=%s signature=%s %s", mv.Property, mv.Predicate, mv.Signature, what)
				if knownSeen[line] == 0 {
					out.Known = append(out.Known, line)
				}
				knownSeen[line]++
				w.Level = ""
				continue
			}
			caseJSON, _ := json.Marshal(min)
			origJSON, _ := json.Marshal(c)
			rep := &Report{Property: mv.Property, Scenario: scName, Predicate: mv.Predicate, Message: mv.Message, Signature: mv.Signature,
				Seed: seed, Idx: uint64(idx), Tier: tier, NumCPU: w.NumCPU, Level: w.Level, ShrinkSteps: steps, Case: caseJSON, Original: origJSON,
				EventDigest: minRes.EventDigest(), Events: minRes.Events}
			out.Violation = rep
			if replayDir != "" {
				os.MkdirAll(replayDir, 0o755)
				b, _ := json.MarshalIndent(rep, "", " ")
				os.WriteFile(filepath.Join(replayDir, fmt.Sprintf("%s-%d-%d.json", prop, seed, idx)), b, 0o644)
			}
			break
		}
	}
	out.Distinct = make([]string, 0, len(distinct))
	for d := range distinct {
		out.Distinct = append(out.Distinct, d)
	}
	sort.Strings(out.Distinct)
	writeOut()
}

func firstDiff(a, b []string) string {
	for i := 0; i < len(a) && i < len(b); i++ {
		if a[i] != b[i] {
			return fmt.Sprintf("event %d differs: %q vs %q", i, short(a[i], 160), short(b[i], 160))
		}
	}
	return fmt.Sprintf("event logs differ in length: %d vs %d", len(a), len(b))
}

// shrinkCase greedily applies one-step simplifications while the same
// predicate of the same property keeps failing.
func shrinkCase(w *World, sc Scenario, c any, prop, pred string, first *Result) (any, *Result, int) {
	// `first` is the failing result already in hand. The case is not re-executed here: a
	// system under test with uncontrolled nondeterminism (say, a change that ranges over a
	// Go map) may not fail again, and the violation that was observed must not be lost.
	best := first
	steps, attempts := 0, 0
	const maxAttempts = 600
	for progress := true; progress && attempts < maxAttempts; {
		progress = false
		for _, cand := range sc.Shrinks(c) {
			attempts++
			if attempts > maxAttempts {
				break
			}
			w.Reset()
			r := sc.Exec(w, cand, prop)
			if v := r.first(prop); v != nil && v.Predicate == pred {
				c, best, progress = cand, r, true
				steps++
				break
			}
		}
	}
	return c, best, steps
}

func replayFile(t *testing.T, w *World, sc Scenario, path, prop string) *ReplayVerdict {
	b, err := os.ReadFile(path)
	if err != nil {
		panic(harnessError{err.Error()})
	}
	var rep Report
	if err := json.Unmarshal(b, &rep); err != nil {
		panic(harnessError{"replay file does not parse: " + err.Error()})
	}
	c, err := sc.Decode(rep.Case)
	if err != nil {
		panic(harnessError{"replay case does not parse: " + err.Error()})
	}
	if prop == "" {
		prop = rep.Property
	}
	w.Level = rep.Level
	if rep.Level == "L3" && SpokBin == "" {
		panic(harnessError{"replay of an L3 violation needs the spok binary (SIM_SPOK_BIN)"})
	}
	w.Reset()
	res := sc.Exec(w, c, prop)
	v := &ReplayVerdict{EventDigest: res.EventDigest()}
	for _, viol := range res.Violations {
		if viol.Property == rep.Property && viol.Predicate == rep.Predicate {
			v.Reproduced = true
			v.Predicate = viol.Predicate
			v.Message = viol.Message
			break
		}
	}
	v.SameEvents = v.EventDigest == rep.EventDigest
	return v
}

// TestRaceSide is the -race side mode of hashsched: the same generated shapes
// and faults, yield hooks NOT installed, real Go scheduler, GOMAXPROCS 1/2/4/16,
// SIM_REPS repetitions per shape. It is not a simulation (the interleaving is
// not controlled) and says so in the evidence; a race report makes the binary
// exit with status 66 (GORACE halt_on_error) which the driver reports for C18.
func TestRaceSide(t *testing.T) {
	if os.Getenv("SIM_RACE") == "" {
		t.Skip("run through /verif/check")
	}
	prop := os.Getenv("SIM_PROP")
	seed := envU64("SIM_SEED", 1)
	from, to, stride := envInt("SIM_FROM", 0), envInt("SIM_TO", 100), envInt("SIM_STRIDE", 1)
	reps := envInt("SIM_REPS", 8)
	scratch := os.Getenv("SIM_SCRATCH")
	out := &WorkerOut{Scenario: "hashsched-race", Prop: prop, NumCPU: runtime.NumCPU(), Counters: map[string]int{}}
	start := time.Now()
	w := NewWorld(t, scratch)
	w.NumCPU = runtime.NumCPU()
	defer w.Close()
	writeOut := func() {
		out.WallS = time.Since(start).Seconds()
		b, _ := json.Marshal(out)
		os.WriteFile(os.Getenv("SIM_OUT"), b, 0o644)
	}
	installRaceHooks()
	var cases []int
	if rp := os.Getenv("SIM_REPLAY"); rp != "" {
		cases = []int{-1}
	} else {
		for idx := from; idx < to; idx += stride {
			cases = append(cases, idx)
		}
	}
	distinct := map[string]struct{}{}
	for _, idx := range cases {
		var c *HashCase
		if idx < 0 {
			b, err := os.ReadFile(os.Getenv("SIM_REPLAY"))
			if err != nil {
				t.Fatal(err)
			}
			var rep Report
			json.Unmarshal(b, &rep)
			cc, _ := hashsched{}.Decode(rep.Case)
			c = cc.(*HashCase)
		} else {
			r := NewRng(seed, "hashsched-race/"+prop, uint64(idx))
			c = hashsched{}.Gen(r, GenConfig{Tier: "quick", Prop: "C18", Idx: uint64(idx + 1000), NumCPU: w.NumCPU}).(*HashCase)
			c.Big = 0
			if idx%5 == 4 && len(c.List) > 0 {
				// many unreadable entries at once: every k-th listed file is missing
				k := 1 + idx%3
				var disk []HEntry
				for i, e := range c.Disk {
					if e.Kind == "file" && i%k == 0 {
						continue
					}
					disk = append(disk, e)
				}
				c.Disk = disk
			}
			if len(c.Variants) == 0 {
				c.Variants = []HVariant{{Order: r.Perm(len(c.List))}, {Order: r.Perm(len(c.List))}}
			}
		}
		cj, _ := json.Marshal(c)
		os.WriteFile("race_case.json", cj, 0o644) // for attribution if the race detector halts the process
		w.Reset()
		res := hashsched{}.RaceExec(w, c, prop, reps)
		out.Runs++
		out.Ops += res.Ops
		for _, d := range res.Distinct {
			distinct[d] = struct{}{}
		}
		if v := res.first(prop); v != nil {
			out.Violation = &Report{Property: v.Property, Scenario: "hashsched-race", Predicate: v.Predicate, Message: v.Message, Signature: v.Signature,
				Seed: seed, Idx: uint64(max(idx, 0)), Tier: "race-side-mode", NumCPU: w.NumCPU, Case: cj, Events: res.Events}
			break
		}
	}
	for d := range distinct {
		out.Distinct = append(out.Distinct, d)
	}
	writeOut()
}

// corpusDigests hashes 40 seeded lists over the shared read-only corpus (same absolute
// paths for every worker of the batch) in a worker-specific order and under a
// worker-specific seeded schedule. The lists depend only on VERIF_SEED, so every
// worker — whatever its runtime.NumCPU() — must report the same 40 digests.
func corpusDigests(w *World, corpus string, seed uint64, worker int) []string {
	var files []string
	filepath.WalkDir(corpus, func(p string, d os.DirEntry, err error) error {
		if err == nil && p != corpus {
			files = append(files, p)
		}
		return nil
	})
	sort.Strings(files)
	var out []string
	for j := 0; j < 40; j++ {
		lr := NewRng(seed, "corpus-list", uint64(j))
		list := Subset(lr, files, 1+lr.Intn(3), 4)
		if lr.Chance(1, 3) && len(list) > 0 {
			list = append(list, Pick(lr, list))
		}
		pr := NewRng(seed, "corpus-perm", uint64(j*1000+worker))
		list = Shuffled(pr, list)
		o := w.hashOnce(list, Sched{Policy: "random", Seed: pr.Uint64()}, j, nil, -1)
		if !o.out.Returned || o.err != nil {
			out = append(out, "error:"+outcomeStr(o.out))
			continue
		}
		out = append(out, o.digest)
	}
	return out
}

// shrinkSchedules replaces seeded schedules by the explicit pick lists of the failing run and
// minimises them: shortest failing prefix (everything after it is fifo), then single picks to 0.
func shrinkSchedules(w *World, sc Scenario, sp SchedPinner, c any, res *Result, prop, pred string, steps int) (any, *Result, int) {
	fails := func(cand any) *Result {
		w.Reset()
		r := sc.Exec(w, cand, prop)
		if v := r.first(prop); v != nil && v.Predicate == pred {
			return r
		}
		return nil
	}
	pinned, ptrs := sp.PinSchedules(c, res)
	if pinned == nil {
		return c, res, steps
	}
	r := fails(pinned)
	if r == nil {
		return c, res, steps // the explicit schedule does not reproduce (schedules shared between calls): keep the seeds
	}
	c, res = pinned, r
	steps++
	attempts := 0
	for _, p := range ptrs {
		// shortest failing prefix by bisection on the length
		lo, hi := 0, len(p.Picks)
		full := append([]int{}, p.Picks...)
		for lo < hi && attempts < 200 {
			mid := (lo + hi) / 2
			p.Picks = append([]int{}, full[:mid]...)
			attempts++
			if rr := fails(c); rr != nil {
				hi, res = mid, rr
			} else {
				lo = mid + 1
			}
		}
		p.Picks = append([]int{}, full[:hi]...)
		for i := range p.Picks {
			if p.Picks[i] == 0 || attempts >= 400 {
				continue
			}
			old := p.Picks[i]
			p.Picks[i] = 0
			attempts++
			if rr := fails(c); rr != nil {
				res = rr
				steps++
			} else {
				p.Picks[i] = old
			}
		}
		if len(p.Picks) == 0 {
			*p = Sched{Policy: "fifo"}
		}
	}
	if rr := fails(c); rr != nil {
		res = rr
	}
	return c, res, steps
}
