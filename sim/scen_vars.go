package spoksim

import (
	"encoding/json"
	"fmt"
	"os"
	"path/filepath"
	"strings"
)

// VarsCase is one case of scenario vars (C13).
type VarsCase struct {
	Vars    []VarDef          `json:"vars"`
	Refs    [][]string        `json:"refs"`    // per template command: variable names referenced, in order
	Lits    [][]string        `json:"lits"`    // per template command: literal pieces around the references (len(refs)+1)
	Ambient map[string]string `json:"ambient"` // ambient process environment of the simulated process
	DotEnv  map[string]string `json:"dotenv"`  // contents of .env next to the spokfile
	Mode    string            `json:"mode"`    // run | vars
	// OutVars: variables that are also declared as named outputs — of a task defined before the one whose
	// commands are checked (OutBefore) or of that task itself. Being an output must not change a value.
	OutVars   []string `json:"out_vars,omitempty"`
	OutBefore bool     `json:"out_before,omitempty"`
}

type varsScen struct{}

func init() { register(varsScen{}) }

func (varsScen) Name() string    { return "vars" }
func (varsScen) Props() []string { return []string{"C13"} }
func (varsScen) Decode(raw json.RawMessage) (any, error) {
	var c VarsCase
	err := json.Unmarshal(raw, &c)
	return &c, err
}
func (varsScen) Rule(string) string {
	return "case = 0-5 variables with names from a pool that the simulated ambient environment and/or .env also set (seeded collisions), values over printable ASCII without quotes (spaces, $, {, }, punctuation), kinds string / join(absolute first argument) / exec(\"echo ...\") with surrounding whitespace / failing exec; a task whose commands mix literal text with {{.NAME}} references, one `echo \"$NAME\"` per variable and a variable-free line; run with --json (or listed with --vars). Oracle: cmd == direct textual substitution, stdout of the $NAME echo == model value, whatever ambient environment and .env hold; failing exec => error and nothing runs. distinct_nontrivial = distinct (variable kinds, collision pattern {ambient,.env} per variable, value character classes, mode) tuples."
}

var vaNames = []string{"VERSION", "NAME", "TARGET", "OPT_FLAGS", "EDITOR", "CC", "LANG_X"}
var vaChars = []string{"a", "b", "Z", "0", "7", " ", "  ", "$", "{", "}", ".", ",", ":", ";", "/", "=", "+", "-", "_", "@", "%", "^", "&", "*", "(", ")", "[", "]", "<", ">", "?", "!", "~", "|", "{{", "}}", "$HOME", "${X}", "#",
	`\`, `\\`, `\t`, `\n`, `\x41`, `C:\tools\bin`}

func vaValue(r *Rng) string {
	n := r.Range(0, 6)
	var b strings.Builder
	b.WriteString(Pick(r, []string{"v", "x", "val", "A", ""}))
	for i := 0; i < n; i++ {
		b.WriteString(Pick(r, vaChars))
	}
	return b.String()
}

func (varsScen) Gen(r *Rng, cfg GenConfig) any {
	c := &VarsCase{Ambient: map[string]string{}, DotEnv: map[string]string{}, Mode: "run"}
	if r.Chance(1, 5) {
		c.Mode = "vars"
	}
	names := Shuffled(r, vaNames)[:r.Range(0, 5)]
	for _, n := range names {
		v := VarDef{Name: n}
		switch k := r.Intn(10); {
		case k < 6:
			v.Kind, v.Args = "str", []string{vaValue(r)}
			if r.Chance(1, 150) {
				v.Args = []string{"pre{BIG}post"} // a very long value (and a very long line in the spokfile)
			} else if r.Chance(1, 5) {
				v.Args = []string{Pick(r, []string{"build/out.txt", "./dist", "out dir/x.bin", "bin", "../sibling/out", "a/b/../c"})}
			}
		case k < 8:
			v.Kind, v.Args = "join", []string{"{PROJ}", Pick(r, []string{"bin", "a/../b", "./x", "out/", "d//e", "link", "link/data.txt", "real/data.txt", "$EDITOR", "${TARGET}/bin", "$NAME.d"})}
			if r.Chance(1, 2) {
				v.Args = append(v.Args, Pick(r, []string{"app", "..", "f.txt"}))
			}
		case k < 10 || true:
			word := Pick(r, []string{"hello", "v1.2.3", "a b", "x=y", "'$EDITOR'", "'${TARGET}' x", "'$NAME'"})
			v.Kind, v.Args = "exec", []string{Pick(r, []string{"echo ", "echo   ", "echo -n "}) + word + Pick(r, []string{"", " ", "   "})}
			if r.Chance(1, 100) {
				v.Args = []string{"echo a{BIG}z"} // more output than a pipe buffer or a scanner token holds
			} else if r.Chance(1, 8) {
				v.Args = []string{Pick(r, []string{"exit 3", "false", "echo oops && exit 1"})}
			} else if r.Chance(1, 8) {
				// several lines of output: only the surrounding whitespace is trimmed
				v.Args = []string{Pick(r, []string{"printf 'one\\ntwo\\n'", "printf '  a b\\n\\nc\\n\\n'", "echo first && echo second"})}
			}
		}
		c.Vars = append(c.Vars, v)
	}
	for _, n := range vaNames {
		if r.Chance(1, 3) {
			c.Ambient[n] = "ambient_" + n
		}
		if r.Chance(1, 3) {
			c.DotEnv[n] = "dotenv_" + n
		}
	}
	if len(names) > 0 && r.Chance(1, 4) {
		c.OutVars = Subset(r, names, 1, 2)
		if len(c.OutVars) == 0 {
			c.OutVars = []string{names[0]}
		}
		c.OutBefore = r.Chance(2, 3)
	}
	lit := func() string {
		return Pick(r, []string{"", " ", "lit", "a b", "x=", "-", "/", ":", "pre ", " post", "$", "(", "$UNSET_Q"})
	}
	for k := r.Range(0, 2); k > 0 && len(names) > 0; k-- {
		var refs []string
		lits := []string{lit()}
		for j := r.Range(1, 3); j > 0; j-- {
			refs = append(refs, Pick(r, names))
			lits = append(lits, lit())
		}
		c.Refs = append(c.Refs, refs)
		c.Lits = append(c.Lits, lits)
	}
	return c
}

// modelValue evaluates a variable the way the specification says.
func vaModelValue(v VarDef, proj string) (val string, fails bool) {
	if strings.Contains(strings.Join(v.Args, ""), "{BIG}") {
		args := make([]string, len(v.Args))
		for i, a := range v.Args {
			args[i] = expandBig(a)
		}
		v.Args = args
	}
	switch v.Kind {
	case "str":
		return v.Args[0], false
	case "join":
		args := make([]string, len(v.Args))
		for i, a := range v.Args {
			args[i] = strings.ReplaceAll(a, "{PROJ}", proj)
		}
		return filepath.Join(args...), false
	default:
		cmd := v.Args[0]
		switch cmd {
		case "printf 'one\\ntwo\\n'":
			return "one\ntwo", false
		case "printf '  a b\\n\\nc\\n\\n'":
			return "a b\n\nc", false
		case "echo first && echo second":
			return "first\nsecond", false
		}
		if !strings.HasPrefix(cmd, "echo") || strings.Contains(cmd, "exit") {
			return "", true
		}
		rest := strings.TrimPrefix(cmd, "echo")
		rest = strings.TrimPrefix(strings.TrimLeft(rest, " "), "-n ")
		// echo joins its words with single spaces; our words contain single spaces only;
		// single quotes protect $references from the shell and are removed by it
		return strings.ReplaceAll(strings.Join(strings.Fields(rest), " "), "'", ""), false
	}
}

func (varsScen) Exec(w *World, cc any, prop string) *Result {
	c := cc.(*VarsCase)
	res := newResult()
	proj := w.Proj
	p := Program{Vars: c.Vars}
	t := TaskDef{Name: "AAAAAA", NCmd: 1}
	var tmplCmds []string
	for i, refs := range c.Refs {
		if i >= len(c.Lits) || len(c.Lits[i]) != len(refs)+1 {
			continue
		}
		var b strings.Builder
		b.WriteString("echo '")
		for j, r := range refs {
			b.WriteString(c.Lits[i][j])
			b.WriteString("{{." + r + "}}")
		}
		b.WriteString(c.Lits[i][len(refs)])
		b.WriteString("'")
		tmplCmds = append(tmplCmds, b.String())
	}
	t.Raw = append(t.Raw, tmplCmds...)
	for _, v := range c.Vars {
		t.Raw = append(t.Raw, fmt.Sprintf(`echo "$%s"`, v.Name))
	}
	t.Raw = append(t.Raw, "echo plain text without variables")
	p.Tasks = []TaskDef{t}
	if len(c.OutVars) > 0 {
		var outs []Out
		for _, n := range c.OutVars {
			if p0 := (&Program{Vars: c.Vars}); varDefined(p0, n) {
				outs = append(outs, Out{"named", n})
			}
		}
		if len(outs) > 0 {
			res.count("probe:variable_also_declared_as_named_output")
			if c.OutBefore {
				p.Tasks = []TaskDef{{Name: "BBBBBB", Outs: outs}, t}
			} else {
				p.Tasks[0].Outs = outs
			}
		}
	}
	text := strings.ReplaceAll(p.Render(), "{PROJ}", proj)
	writeFile(filepath.Join(proj, "spokfile"), text)
	writeFile(filepath.Join(w.Ctl, "AAAAAA_0"), "true\n")
	// an existing directory reached through a symbolic link: join() is a lexical operation
	writeFile(filepath.Join(proj, "real", "data.txt"), "x")
	must(os.Symlink("real", filepath.Join(proj, "link")))
	if len(c.DotEnv) > 0 {
		var b strings.Builder
		for _, k := range sortedKeys(c.DotEnv) {
			fmt.Fprintf(&b, "%s=%s\n", k, c.DotEnv[k])
		}
		writeFile(filepath.Join(proj, ".env"), b.String())
	}
	env := w.BaseEnv()
	for k, v := range c.Ambient {
		env[k] = v
	}
	model := map[string]string{}
	anyFails := false
	var kinds []string
	for _, v := range c.Vars {
		val, fails := vaModelValue(v, proj)
		if fails {
			anyFails = true
		}
		model[v.Name] = val
		coll := ""
		if _, ok := c.Ambient[v.Name]; ok {
			coll += "A"
			res.count("fault_present:ambient_env_collision")
		}
		if _, ok := c.DotEnv[v.Name]; ok {
			coll += "D"
			res.count("fault_present:dotenv_collision")
		}
		kinds = append(kinds, v.Kind+coll+valClass(val))
	}
	args := []string{"AAAAAA", "--json"}
	if c.Mode == "vars" {
		args = []string{"--vars"}
	}
	obs := w.Invoke(Invocation{Args: args, Cwd: proj, Env: env, Sched: Sched{Policy: "fifo"}, Faults: NoFaults()})
	res.Ops++
	logd := strings.Fields(readFileOr(w.Log, ""))
	res.event("%s vars=%s ambient=%v dotenv=%v failed=%v log=%v", c.Mode, jsonStr(c.Vars), sortedKeys(c.Ambient), sortedKeys(c.DotEnv), obs.Failed, logd)
	res.distinct(fmt.Sprintf("%v|%s|fail%v", kinds, c.Mode, anyFails))
	if obs.Out.Panic != "" || obs.Out.Deadlock {
		res.Abandoned = "C18: invocation ended abnormally: " + short(obs.Out.Panic, 200)
		return res
	}
	sig := "vars:" + c.Mode
	if anyFails {
		res.count("probe:failing_exec")
		if !obs.Failed {
			res.violate("C13", "failing-exec-is-an-error", sig, "a variable is defined by a failing exec(...) but the invocation succeeded")
		} else if len(logd) > 0 {
			res.violate("C13", "failing-exec-is-an-error", sig, "a variable is defined by a failing exec(...); spok reported an error but still ran %v", logd)
		}
		return res
	}
	if obs.Failed {
		// every variable evaluates and every command is valid shell once the values are substituted
		// textually: a failure means the text that reached the shell is not that substitution
		res.violate("C13", "template-is-textual-substitution", sig, "the invocation failed although every variable evaluates and the substituted commands are valid: %s", short(obs.ErrText, 300))
		return res
	}
	if c.Mode == "vars" {
		lines := strings.Split(obs.Stdout, "\n")
		for _, v := range c.Vars {
			found := false
			if strings.Contains(model[v.Name], "\n") {
				res.count("accept_either:multi_line_value_in_vars_table")
				continue
			}
			for _, l := range lines {
				// layout (padding, separators) is not specified: compare words
				f := tableFields(l)
				if len(f) >= 1 && f[0] == v.Name && strings.Join(f[1:], " ") == strings.Join(tableFields(model[v.Name]), " ") {
					found = true
				}
			}
			if !found {
				res.violate("C13", "vars-lists-model-values", sig, "--vars does not list %s with value %q; output:\n%s", v.Name, model[v.Name], short(obs.Stdout, 400))
				return res
			}
		}
		return res
	}
	var jr []jsonResult
	if err := json.Unmarshal([]byte(obs.Stdout), &jr); err != nil || len(jr) != 1 {
		res.Abandoned = "C20: --json output is not one JSON document with one task"
		return res
	}
	got := jr[0].Results
	want := 1 + len(tmplCmds) + len(c.Vars) + 1
	if len(got) != want {
		res.violate("C13", "other-text-unchanged", sig, "the task has %d command lines, %d commands reached the shell (a substituted value must not change where a command ends): %s", want, len(got), short(jsonStr(got), 400))
		return res
	}
	k := 1
	for i := range tmplCmds {
		var b strings.Builder
		for j, r := range c.Refs[i] {
			b.WriteString(c.Lits[i][j])
			b.WriteString(model[r])
		}
		b.WriteString(c.Lits[i][len(c.Refs[i])])
		wantCmd := "echo '" + b.String() + "'"
		if got[k].Cmd != wantCmd {
			res.violate("C13", "template-is-textual-substitution", sig, "command %q became %q, direct substitution gives %q", tmplCmds[i], got[k].Cmd, wantCmd)
			return res
		}
		res.count("probe:template_reference_checked")
		for _, r := range c.Refs[i] {
			if _, ok := c.Ambient[r]; ok {
				res.count("probe:env_collision_on_template_variable")
			}
		}
		k++
	}
	for _, v := range c.Vars {
		wantOut := model[v.Name] + "\n"
		if got[k].Stdout != wantOut {
			src := "neither"
			if got[k].Stdout == c.Ambient[v.Name]+"\n" {
				src = "the ambient environment"
			} else if got[k].Stdout == c.DotEnv[v.Name]+"\n" {
				src = "the .env file"
			}
			res.violate("C13", "environment-carries-spokfile-value", "vars:env:"+src, "`echo \"$%s\"` printed %q, the spokfile value is %q (the printed value comes from %s)", v.Name, got[k].Stdout, model[v.Name], src)
			return res
		}
		if got[k].Cmd != fmt.Sprintf(`echo "$%s"`, v.Name) {
			res.violate("C13", "other-text-unchanged", sig, "command text %q was altered to %q", fmt.Sprintf(`echo "$%s"`, v.Name), got[k].Cmd)
			return res
		}
		if _, a := c.Ambient[v.Name]; a {
			res.count("probe:env_collision_checked")
		}
		if _, d := c.DotEnv[v.Name]; d {
			res.count("probe:dotenv_collision_checked")
		}
		k++
	}
	if got[k].Cmd != "echo plain text without variables" || got[k].Stdout != "plain text without variables\n" {
		res.violate("C13", "other-text-unchanged", sig, "the variable-free command became %q / printed %q", got[k].Cmd, got[k].Stdout)
	}
	return res
}

func varDefined(p *Program, name string) bool {
	for _, v := range p.Vars {
		if v.Name == name {
			return true
		}
	}
	return false
}

func valClass(v string) string {
	c := ""
	for _, k := range []string{" ", "$", "{", "}", "#"} {
		if strings.Contains(v, k) {
			c += k
		}
	}
	if v == "" {
		c = "empty"
	}
	return "[" + c + "]"
}

func (varsScen) Shrinks(cc any) []any {
	c := cc.(*VarsCase)
	var out []any
	add := func(f func(n *VarsCase)) {
		n := cloneJSON(*c)
		f(&n)
		out = append(out, &n)
	}
	if len(c.OutVars) > 0 {
		add(func(n *VarsCase) { n.OutVars = nil })
	}
	for i := range c.Refs {
		add(func(n *VarsCase) {
			n.Refs = append(n.Refs[:i:i], n.Refs[i+1:]...)
			n.Lits = append(n.Lits[:i:i], n.Lits[i+1:]...)
		})
	}
	for i, v := range c.Vars {
		used := false
		for _, refs := range c.Refs {
			for _, r := range refs {
				if r == v.Name {
					used = true
				}
			}
		}
		if !used {
			add(func(n *VarsCase) { n.Vars = append(n.Vars[:i:i], n.Vars[i+1:]...) })
		}
		if v.Kind == "str" && v.Args[0] != "v" {
			add(func(n *VarsCase) { n.Vars[i].Args[0] = "v" })
		}
	}
	for _, k := range sortedKeys(c.Ambient) {
		add(func(n *VarsCase) { delete(n.Ambient, k) })
	}
	for _, k := range sortedKeys(c.DotEnv) {
		add(func(n *VarsCase) { delete(n.DotEnv, k) })
	}
	return out
}
