package spoksim

import (
	"errors"
	"fmt"
	"os"
	"path/filepath"
	"sort"
	"strings"
	"sync"
	"sync/atomic"
	"syscall"

	"github.com/FollowTheProcess/collections/simorder"
	"github.com/FollowTheProcess/spok/cli/cmd"
	"github.com/FollowTheProcess/spok/simhook"
)

// PointRec is one crash point / step counter / cache write the system passed.
type PointRec struct {
	Site   string `json:"site"`
	Detail string `json:"detail,omitempty"`
	Len    int    `json:"len,omitempty"` // for writes: number of bytes
}

func (p PointRec) String() string {
	if p.Len > 0 {
		return fmt.Sprintf("%s(%s)[%d]", p.Site, p.Detail, p.Len)
	}
	return fmt.Sprintf("%s(%s)", p.Site, p.Detail)
}

// Faults is the fault plan of one invocation. The zero value injects nothing.
type Faults struct {
	// CrashAt kills the invocation when the n-th (0-based) crash point of the
	// run is reached; -1 = never. Crash points are numbered in the order of
	// a fault-free dry run (only non-counter sites are numbered).
	CrashAt int `json:"crash_at"`
	// TearWrite: the w-th (0-based) cache write writes only Keep bytes, then
	// either the process dies (Err == "") or the write returns Err.
	TearWrite int    `json:"tear_write"`
	TearKeep  int    `json:"tear_keep,omitempty"`
	TearErr   string `json:"tear_err,omitempty"` // "", "ENOSPC", "EIO"
	// TearSibling: the process dies with the complete new contents sitting under this name beside the target and
	// the target itself untouched: what a kill between "write temporary file" and "rename" leaves behind
	TearSibling string `json:"tear_sibling,omitempty"`
	// WriteErrAll: every write through the cache-write seam fails with this errno for the whole invocation and
	// nothing is written: a cache file or directory that is not writable (read-only, owned by somebody else)
	WriteErrAll string `json:"write_err_all,omitempty"`
	// FsizeLimit (level L3 only): the child process runs with RLIMIT_FSIZE = this many bytes, so every file it
	// grows beyond that gets a short write followed by EFBIG: a full disk or an exhausted quota, struck inside
	// whatever write is in flight (cache file, spokfile under --fmt / --init, .gitignore). 0 = no limit.
	FsizeLimit int `json:"fsize_limit,omitempty"`
	// NofileLimit (level L3 only): RLIMIT_NOFILE (soft and hard) of the child process
	NofileLimit int `json:"nofile_limit,omitempty"`
	// OpenErr / ReadErr: path (absolute) -> errno name.
	OpenErr map[string]string `json:"open_err,omitempty"`
	ReadErr map[string]string `json:"read_err,omitempty"`
	// RemoveErrPath: the removal of this absolute path asked for by --clean fails
	// (identified by path, not by position: the order of removals follows Go map
	// iteration inside spok, which no simulator can seed).
	RemoveErrPath string `json:"remove_err_path,omitempty"`
	// Budgets: counter site -> maximum number of calls (bounded liveness).
	Budgets map[string]int `json:"budgets,omitempty"`
}

// NoFaults is the empty plan.
func NoFaults() Faults { return Faults{CrashAt: -1, TearWrite: -1} }

var errnoByName = map[string]error{
	"ENOENT":  syscall.ENOENT,
	"EACCES":  syscall.EACCES,
	"EIO":     syscall.EIO,
	"EMFILE":  syscall.EMFILE,
	"ENOSPC":  syscall.ENOSPC,
	"EBUSY":   syscall.EBUSY,
	"EAGAIN":  syscall.EAGAIN,
	"ETXTBSY": syscall.ETXTBSY,
	"ENOMEM":  syscall.ENOMEM,
}

// counterSites are step counters, not crash points.
var counterSites = map[string]bool{"parser.next": true, "lexer.next": true, "find.readdir": true}

// Invocation is one simulated run of the spok CLI.
type Invocation struct {
	Args   []string
	Cwd    string
	Env    map[string]string
	Inv    int // index within the case: selects the chooser stream
	Sched  Sched
	Faults Faults
	// Protect lists absolute paths --clean must never remove (plus everything
	// outside the sandbox); a removal of one of them is vetoed and recorded.
	Protect []string
	AtStep  func(step int, parked []string)
}

// Obs is everything observable about an invocation.
type Obs struct {
	Failed   bool   // Execute returned an error (the real main would exit 1)
	ErrText  string // that error
	Stdout   string
	Stderr   string
	Out      RunOutcome
	Crashed  string     // non-empty: killed at this crash point
	Points   []PointRec // crash points passed, in order (writes carry their length)
	Counts   map[string]int
	Trace    []string // scheduler picks
	Perms    []string // dag permutations drawn
	Picks    []int    // all choices, for explicit replay
	Vetoed   []string // removals refused by the safety veto
	Removed  []string // removals --clean asked for (after veto)
	Fired    []string // faults that actually fired
	HashLeak bool
	ExitCode int // L3 only: exit status of the process
}

// hookState is the per-invocation state behind the simhook function variables.
type hookState struct {
	mu      sync.Mutex
	f       Faults
	points  []PointRec
	nPoints int
	nWrites int
	counts  map[string]*atomic.Int64
	vetoed  []string
	removed []string
	fired   []string
	protect []string
	sandbox string
}

func (h *hookState) point(site, detail string) {
	if counterSites[site] {
		c := h.counts[site]
		n := int(c.Add(1))
		if max, ok := h.f.Budgets[site]; ok && n > max {
			if site == "lexer.next" {
				// the lexer runs on its own goroutine: a panic there could not be
				// recovered, so park it forever; the scheduler reports the deadlock.
				h.mu.Lock()
				h.fired = append(h.fired, "budget:"+site)
				h.mu.Unlock()
				select {} // durably blocked inside the bubble
			}
			panic(simBudget{Site: site, Count: n})
		}
		return
	}
	h.mu.Lock()
	n := h.nPoints
	h.nPoints++
	h.points = append(h.points, PointRec{Site: site, Detail: detail})
	h.mu.Unlock()
	if h.f.CrashAt == n {
		h.fired = append(h.fired, "crash:"+site)
		panic(simCrash{Site: site, Detail: detail})
	}
}

func (h *hookState) writeFile(site, path string, data []byte, perm os.FileMode) (bool, error) {
	h.mu.Lock()
	w := h.nWrites
	h.nWrites++
	h.points = append(h.points, PointRec{Site: site, Detail: filepath.Base(path), Len: len(data)})
	h.mu.Unlock()
	if h.f.WriteErrAll != "" {
		h.mu.Lock()
		h.fired = append(h.fired, "write-"+h.f.WriteErrAll+"-all")
		h.mu.Unlock()
		return true, &os.PathError{Op: "open", Path: path, Err: errnoByName[h.f.WriteErrAll]}
	}
	if h.f.TearWrite != w {
		return false, nil
	}
	if h.f.TearSibling != "" {
		must(os.WriteFile(filepath.Join(filepath.Dir(path), h.f.TearSibling), data, perm))
		h.fired = append(h.fired, "sibling-crash:"+h.f.TearSibling)
		panic(simCrash{Site: site + ".sibling", Detail: h.f.TearSibling})
	}
	keep := h.f.TearKeep
	if keep > len(data) {
		keep = len(data)
	}
	// what os.WriteFile does, stopped after `keep` bytes: open with O_TRUNC, write a prefix
	f, err := os.OpenFile(path, os.O_WRONLY|os.O_CREATE|os.O_TRUNC, perm)
	if err != nil {
		return true, err
	}
	_, werr := f.Write(data[:keep])
	f.Close()
	must(werr)
	if h.f.TearErr == "" {
		h.fired = append(h.fired, fmt.Sprintf("tear-crash:%d/%d", keep, len(data)))
		panic(simCrash{Site: site + ".torn", Detail: fmt.Sprintf("%d/%d", keep, len(data))})
	}
	h.fired = append(h.fired, fmt.Sprintf("tear-%s:%d/%d", h.f.TearErr, keep, len(data)))
	return true, &os.PathError{Op: "write", Path: path, Err: errnoByName[h.f.TearErr]}
}

func (h *hookState) open(f *os.File, err error, path string) (*os.File, error) {
	if name, ok := h.f.OpenErr[path]; ok {
		if f != nil {
			f.Close()
		}
		h.mu.Lock()
		h.fired = append(h.fired, "open-"+name)
		h.mu.Unlock()
		return nil, &os.PathError{Op: "open", Path: path, Err: errnoByName[name]}
	}
	return f, err
}

func (h *hookState) readErr(err error, path string) error {
	if name, ok := h.f.ReadErr[path]; ok {
		h.mu.Lock()
		h.fired = append(h.fired, "read-"+name)
		h.mu.Unlock()
		return &os.PathError{Op: "read", Path: path, Err: errnoByName[name]}
	}
	return err
}

var errVeto = errors.New("removal vetoed by the simulator (protected path)")

func (h *hookState) remove(site, path string) error {
	clean := filepath.Clean(path)
	// what the removal would really hit: symbolic links in the directory part resolved (the last component is
	// removed as it is, a link is unlinked and not followed)
	phys := clean
	if rp, err := filepath.EvalSymlinks(filepath.Dir(clean)); err == nil {
		phys = filepath.Join(rp, filepath.Base(clean))
	}
	bad := !filepath.IsAbs(clean)
	for _, c := range []string{clean, phys} {
		if !strings.HasPrefix(c, h.sandbox+string(filepath.Separator)) {
			bad = true
		}
		for _, p := range h.protect {
			// p itself or any ancestor of p
			if c == p || strings.HasPrefix(p, c+string(filepath.Separator)) {
				bad = true
			}
		}
	}
	if bad {
		h.vetoed = append(h.vetoed, clean)
		return errVeto
	}
	if h.f.RemoveErrPath != "" && h.f.RemoveErrPath == clean {
		h.fired = append(h.fired, "remove-EACCES")
		return &os.PathError{Op: "unlinkat", Path: path, Err: syscall.EACCES}
	}
	h.removed = append(h.removed, clean)
	return nil
}

func (h *hookState) install(s *Scheduler, ch *Chooser, perms *[]string) {
	simhook.YieldFn = s.Yield
	simhook.PointFn = h.point
	simhook.WriteFileFn = h.writeFile
	simhook.OpenFn = h.open
	simhook.ReadErrFn = h.readErr
	simhook.RemoveFn = h.remove
	simorder.PermFn = func(n int, site string) []int {
		p := ch.Perm(n)
		if n > 1 {
			*perms = append(*perms, fmt.Sprintf("%s%v", site, p))
		}
		return p
	}
}

func uninstallHooks() {
	simhook.YieldFn = nil
	simhook.PointFn = nil
	simhook.WriteFileFn = nil
	simhook.OpenFn = nil
	simhook.ReadErrFn = nil
	simhook.RemoveFn = nil
	simorder.PermFn = nil
}

func newHookState(w *World, f Faults, protect []string) *hookState {
	h := &hookState{f: f, counts: map[string]*atomic.Int64{}, protect: protect, sandbox: w.Root}
	for s := range counterSites {
		h.counts[s] = &atomic.Int64{}
	}
	return h
}

// Invoke runs the real CLI in-process (level L2): real flag parsing,
// app.App.Run, file, task, cache, hash, shell (mvdan/sh), parser, lexer, ast —
// inside one synctest bubble driven by the seeded scheduler.
func (w *World) Invoke(in Invocation) *Obs {
	if w.Level == "L3" {
		return w.InvokeProc(in)
	}
	obs := &Obs{Counts: map[string]int{}}

	// ---- process-global state of the simulated process
	oldArgs, oldOut, oldErr := os.Args, os.Stdout, os.Stderr
	oldCwd, err := os.Getwd()
	must(err)
	oldEnv := os.Environ()
	outPath := filepath.Join(w.IO, "stdout")
	errPath := filepath.Join(w.IO, "stderr")
	outF, err := os.Create(outPath)
	must(err)
	errF, err := os.Create(errPath)
	must(err)
	os.Args = append([]string{"spok"}, in.Args...)
	os.Stdout, os.Stderr = outF, errF
	os.Clearenv()
	for _, k := range sortedKeys(in.Env) {
		os.Setenv(k, in.Env[k])
	}
	must(os.Chdir(in.Cwd))

	ch := NewChooser(in.Sched, in.Inv)
	s := &Scheduler{ch: ch, Budget: 200000, AtStep: in.AtStep}
	h := newHookState(w, in.Faults, in.Protect)
	h.install(s, ch, &obs.Perms)

	var execErr error
	obs.Out = RunBubble(w.T, s, func() {
		root, err := cmd.BuildRootCmd()
		if err != nil {
			execErr = err
			return
		}
		execErr = root.Execute()
	})

	uninstallHooks()
	must(os.Chdir(oldCwd))
	os.Clearenv()
	for _, kv := range oldEnv {
		if i := strings.IndexByte(kv, '='); i > 0 {
			os.Setenv(kv[:i], kv[i+1:])
		}
	}
	os.Args, os.Stdout, os.Stderr = oldArgs, oldOut, oldErr
	outF.Close()
	errF.Close()

	obs.Stdout = readFileOr(outPath, "")
	obs.Stderr = readFileOr(errPath, "")
	if obs.Out.Crash != nil {
		obs.Crashed = obs.Out.Crash.Site
		if obs.Out.Crash.Detail != "" {
			obs.Crashed += "(" + obs.Out.Crash.Detail + ")"
		}
	} else if execErr != nil {
		obs.Failed = true
		obs.ErrText = execErr.Error()
	}
	obs.Points = h.points
	for site, c := range h.counts {
		obs.Counts[site] = int(c.Load())
	}
	obs.Trace = s.Trace
	obs.Picks = ch.Rec
	obs.Vetoed = h.vetoed
	obs.Removed = h.removed
	sort.Strings(h.fired)
	obs.Fired = h.fired
	if obs.Out.Leak {
		n := goroutinesWithFrame("spok/hash.")
		if n > w.hashLeakBase {
			obs.HashLeak = true
			w.hashLeakBase = n
		}
	}
	return obs
}

// BaseEnv is the minimal environment of a simulated process.
func (w *World) BaseEnv() map[string]string {
	return map[string]string{
		"HOME": w.Home,
		"LOG":  w.Log,
		"CTL":  w.Ctl,
		"PROJ": w.Proj,
	}
}
