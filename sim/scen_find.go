package spoksim

import (
	"encoding/json"
	"fmt"
	"os"
	"path/filepath"
	"strings"
	"syscall"

	"github.com/FollowTheProcess/spok/file"
	"github.com/FollowTheProcess/spok/simhook"
)

// FindCase is one case of scenario find (C17). Level 0 is $HOME of the
// simulated user (w.Home); level i is i directories below it.
type FindCase struct {
	Levels []FLevel `json:"levels"`         // contents of level 0..depth
	Start  int      `json:"start"`          // level index
	Stop   int      `json:"stop"`           // level index, or -1 = the unrelated directory
	Gone   bool     `json:"gone,omitempty"` // the start directory does not exist
	CLI    bool     `json:"cli"`            // also run `spok --show` with cwd=start, HOME=stop
	// HomeLink: the CLI run reaches the chain through a symbolic link (homelink -> home): HOME and $PWD are the
	// logical paths through the link, as a login shell would provide them, and a decoy spokfile sits above the real home
	HomeLink bool `json:"home_link,omitempty"`
	// Deep: the search starts this many (empty) directories below the start level, and file.Find runs with the
	// process's open-file limit lowered to a handful of free descriptors: the climb must not need one per level
	Deep int `json:"deep,omitempty"`
}

// FLevel says what one directory of the chain holds besides the next level.
type FLevel struct {
	Before bool   `json:"before,omitempty"` // an entry sorting before "spokfile"
	After  bool   `json:"after,omitempty"`  // an entry sorting after "spokfile"
	Spok   string `json:"spok,omitempty"`   // "" | "file" | "dir"
	// Variant: a regular file whose name differs from "spokfile" only in letter case ("Spokfile", "SPOKFILE");
	// on a case-sensitive file system it is not the spokfile (upper case sorts before lower case)
	Variant string `json:"variant,omitempty"`
}

type findScen struct{}

func init() { register(findScen{}) }

func (findScen) Name() string    { return "find" }
func (findScen) Props() []string { return []string{"C17"} }
func (findScen) Decode(raw json.RawMessage) (any, error) {
	var c FindCase
	err := json.Unmarshal(raw, &c)
	return &c, err
}
func (findScen) Rule(string) string {
	return "case = a directory chain of depth <= 4 (one case in a hundred: 30-60 further empty levels below the start, searched with only a handful of free file descriptors) below the simulated $HOME where each level independently holds nothing / an entry sorting before and/or after 'spokfile' / a regular file 'spokfile' / a directory named 'spokfile'; start = any level (sometimes removed, so ReadDir fails); stop = any level or an unrelated directory; the real file.Find is called (and `spok --show` in-process with cwd=start, HOME=stop) with a step budget of depth(start)+2 directory reads enforced at simhook.Point(find.readdir). distinct_nontrivial = distinct (level contents, start, stop, outcome) tuples."
}

func (findScen) Gen(r *Rng, cfg GenConfig) any {
	depth := r.Range(0, 4)
	c := &FindCase{CLI: r.Chance(1, 2)}
	for i := 0; i <= depth; i++ {
		l := FLevel{Before: r.Chance(1, 3), After: r.Chance(1, 3)}
		switch r.Intn(6) {
		case 0, 1:
			l.Spok = "file"
		case 2:
			l.Spok = "dir"
		}
		if r.Chance(1, 10) {
			l.Variant = Pick(r, []string{"Spokfile", "SPOKFILE", "SpokFile"})
		}
		c.Levels = append(c.Levels, l)
	}
	c.Start = r.Intn(depth + 1)
	if r.Chance(1, 2) {
		c.Start = depth
	}
	switch k := r.Intn(8); {
	case k == 0:
		c.Stop = -1
	case k <= 4:
		c.Stop = r.Intn(c.Start + 1) // at or above start
	default:
		c.Stop = r.Intn(depth + 1)
	}
	c.Gone = r.Chance(1, 25)
	c.HomeLink = c.CLI && !c.Gone && c.Stop >= 0 && c.Stop <= c.Start && r.Chance(1, 4)
	if !c.Gone && r.Chance(1, 100) {
		c.Deep = Pick(r, []int{30, 40, 60})
	}
	return c
}

func (c *FindCase) dir(w *World, level int) string {
	if level < 0 {
		return w.Other
	}
	d := w.Home
	for i := 1; i <= level; i++ {
		d = filepath.Join(d, fmt.Sprintf("l%d", i))
	}
	return d
}

const findSpokfile = "# found\ntask hello() {\n    echo hello\n}\n"

type quietLogger struct{}

func (quietLogger) Sync() error          { return nil }
func (quietLogger) Debug(string, ...any) {}

func (findScen) Exec(w *World, cc any, prop string) *Result {
	c := cc.(*FindCase)
	res := newResult()
	if len(c.Levels) == 0 || c.Start >= len(c.Levels) || c.Start < 0 || c.Stop >= len(c.Levels) {
		return res
	}
	os.RemoveAll(w.Proj) // the default project dir is not part of this scenario
	for i, l := range c.Levels {
		d := c.dir(w, i)
		must(os.MkdirAll(d, 0o755))
		if l.Before {
			writeFile(filepath.Join(d, "aaa"), "x")
		}
		if l.After {
			writeFile(filepath.Join(d, "zzz"), "x")
		}
		if l.Variant != "" {
			writeFile(filepath.Join(d, l.Variant), strings.Replace(findSpokfile, "hello", "variant", -1))
			res.count("fault_present:case_variant_of_spokfile")
		}
		switch l.Spok {
		case "file":
			writeFile(filepath.Join(d, "spokfile"), findSpokfile)
		case "dir":
			must(os.MkdirAll(filepath.Join(d, "spokfile"), 0o755))
		}
	}
	start, stop := c.dir(w, c.Start), c.dir(w, c.Stop)
	if c.Gone {
		start = filepath.Join(start, "gone")
	}
	for i := 1; i <= c.Deep; i++ {
		start = filepath.Join(start, fmt.Sprintf("d%d", i))
	}
	if c.Deep > 0 {
		must(os.MkdirAll(start, 0o755))
		res.count("fault_present:deep_start_directory_and_few_free_file_descriptors")
	}

	// ---- reference answer
	// candidates: directories at or above start that are not strict ancestors of stop
	below := c.Stop >= 0 && c.Stop <= c.Start // start is at or below stop
	want := ""
	var loose []string // also acceptable when start is not below stop (specification silent)
	{
		for lvl := c.Start; lvl >= 0; lvl-- {
			strictAncestorOfStop := c.Stop >= 0 && lvl < c.Stop
			if c.Levels[lvl].Spok == "file" {
				p := filepath.Join(c.dir(w, lvl), "spokfile")
				if !strictAncestorOfStop {
					if want == "" && len(loose) == 0 {
						want = p
					}
				} else if want == "" && len(loose) == 0 {
					loose = append(loose, p)
				}
			}
			if below && lvl == c.Stop {
				break
			}
		}
	}
	budget := len(strings.Split(strings.Trim(start, "/"), "/")) + 2

	judge := func(how, got string, err error, budgetHit bool, reads int) {
		sig := "find:" + how
		outcome := "notfound"
		switch {
		case budgetHit:
			outcome = "budget"
			res.violate("C17", "terminates", sig, "%s: more than %d directory reads for a start directory %d levels deep: the search does not terminate (start=%s stop=%s)", how, budget, budget-2, rel(w, start), rel(w, stop))
		case c.Gone:
			// the start directory does not exist (ReadDir fails): an error is fine, and so is carrying on
			// from its parent; what is never fine is a wrong path (or not terminating, checked above)
			outcome = "gone"
			res.count("fault_fired:readdir_error")
			if err == nil && got != want {
				accepted := false
				for _, l := range loose {
					if got == l {
						accepted = true
					}
				}
				if !accepted {
					res.violate("C17", "nearest-enclosing-spokfile", sig, "%s: the start directory does not exist; %q was returned, the nearest spokfile above it is %q", how, rel(w, got), rel(w, want))
				}
			}
		case err == nil && got == want:
			outcome = "found"
		case err == nil && want == "":
			ok := false
			for _, l := range loose {
				if got == l {
					ok = true
				}
			}
			if ok {
				outcome = "found-above-stop"
				res.count("accept_either:spokfile_above_stop_when_start_not_below_stop")
			} else {
				res.violate("C17", "nearest-enclosing-spokfile", sig, "%s: returned %q but no regular file 'spokfile' exists at or above start and not above stop (start=%s stop=%s)", how, rel(w, got), rel(w, start), rel(w, stop))
			}
		case err == nil:
			res.violate("C17", "nearest-enclosing-spokfile", sig, "%s: returned %q, the nearest enclosing spokfile is %q (start=%s stop=%s)", how, rel(w, got), rel(w, want), rel(w, start), rel(w, stop))
		case want != "":
			res.violate("C17", "nearest-enclosing-spokfile", sig, "%s: reported %q although %q exists at or above start and not above stop (start=%s stop=%s levels=%s)", how, short(err.Error(), 80), rel(w, want), rel(w, start), rel(w, stop), jsonStr(c.Levels))
		}
		res.event("%s start=%s stop=%s -> %s reads=%d", how, rel(w, start), rel(w, stop), outcome, reads)
		res.distinct(fmt.Sprintf("%s|%s|%d|%d|%s", how, jsonStr(c.Levels), c.Start, c.Stop, outcome))
		if c.Levels[c.Start].Before && c.Levels[c.Start].Spok == "file" {
			res.count("probe:entry_sorting_before_spokfile")
		}
		if !below {
			res.count("probe:start_not_below_stop")
		}
		if c.Stop >= 0 && below && c.Levels[c.Stop].Spok == "file" && want == filepath.Join(stop, "spokfile") {
			res.count("probe:spokfile_in_stop_dir")
		}
		if below && !c.Levels[c.Stop].Before && !c.Levels[c.Stop].After && c.Levels[c.Stop].Spok == "" && c.Stop == c.Start {
			res.count("probe:empty_stop_dir")
		}
	}

	// ---- L1: the real file.Find under a step budget
	func() {
		reads := 0
		simhook.PointFn = func(site, detail string) {
			if site == "find.readdir" {
				reads++
				if reads > budget {
					panic(simBudget{Site: site, Count: reads})
				}
			}
		}
		defer uninstallHooks()
		var got string
		var err error
		hit := false
		func() {
			defer func() {
				if r := recover(); r != nil {
					if _, ok := r.(simBudget); ok {
						hit = true
						return
					}
					panic(r)
				}
			}()
			if c.Deep > 0 {
				// a handful of free descriptors only (RLIMIT_NOFILE, soft): new descriptors take the lowest free numbers
				var old syscall.Rlimit
				must(syscall.Getrlimit(syscall.RLIMIT_NOFILE, &old))
				ents, _ := os.ReadDir("/proc/self/fd")
				low := old
				low.Cur = uint64(len(ents) + 8)
				if low.Cur < old.Cur {
					must(syscall.Setrlimit(syscall.RLIMIT_NOFILE, &low))
					defer syscall.Setrlimit(syscall.RLIMIT_NOFILE, &old)
				}
			}
			got, err = file.Find(quietLogger{}, start, stop)
		}()
		res.Ops++
		judge("file.Find", got, err, hit, reads)
	}()

	// ---- L2: the CLI from cwd=start with HOME=stop
	if c.CLI && !c.Gone && res.first("C17") == nil {
		f := NoFaults()
		f.Budgets = map[string]int{"find.readdir": budget}
		env := w.BaseEnv()
		env["HOME"] = stop
		cliStart := start
		if c.HomeLink {
			// w.Root/homelink -> home ; a decoy spokfile above the real $HOME (in w.Root) that must never be found
			link := filepath.Join(w.Root, "homelink")
			os.Remove(link)
			must(os.Symlink("home", link))
			writeFile(filepath.Join(w.Root, "spokfile"), "# decoy above home\ntask decoy() {\n    echo decoy\n}\n")
			logical := func(p string) string { return link + strings.TrimPrefix(p, w.Home) }
			env["HOME"] = logical(stop)
			env["PWD"] = logical(start)
			cliStart = logical(start)
			res.count("fault_present:home_through_symlink")
		}
		obs := w.Invoke(Invocation{Args: []string{"--show"}, Cwd: cliStart, Env: env, Sched: Sched{Policy: "fifo"}, Faults: f})
		if c.HomeLink {
			os.Remove(filepath.Join(w.Root, "spokfile"))
			os.Remove(filepath.Join(w.Root, "homelink"))
		}
		res.Ops++
		got := ""
		var err error
		if obs.Failed {
			err = fmt.Errorf("%s", obs.ErrText)
		} else if i := strings.Index(obs.Stdout, "Tasks defined in "); i >= 0 {
			line := obs.Stdout[i+len("Tasks defined in "):]
			if j := strings.IndexByte(line, '\n'); j >= 0 {
				line = line[:j]
			}
			got = strings.TrimSuffix(strings.TrimSpace(line), ":")
			if c.HomeLink {
				// the same file may be named through the link or by its physical path
				got = strings.Replace(got, filepath.Join(w.Root, "homelink"), w.Home, 1)
			}
		}
		if obs.Out.Panic != "" || obs.Out.Deadlock {
			res.Abandoned = "C18: --show ended abnormally"
			return res
		}
		if !obs.Failed && got == "" {
			res.Abandoned = "C20: --show succeeded but printed no 'Tasks defined in <path>' line"
			return res
		}
		judge("spok --show", got, err, obs.Out.Budget != nil, obs.Counts["find.readdir"])
	}
	return res
}

func rel(w *World, p string) string {
	if p == "" {
		return ""
	}
	return strings.Replace(p, w.Root, "$W", 1)
}

func (findScen) Shrinks(cc any) []any {
	c := cc.(*FindCase)
	var out []any
	add := func(f func(n *FindCase)) {
		n := cloneJSON(*c)
		f(&n)
		out = append(out, &n)
	}
	if c.CLI {
		add(func(n *FindCase) { n.CLI = false })
	}
	// drop the deepest level
	if len(c.Levels) > 1 && c.Start < len(c.Levels)-1 && c.Stop < len(c.Levels)-1 {
		add(func(n *FindCase) { n.Levels = n.Levels[:len(n.Levels)-1] })
	}
	// drop the top level (shift everything up)
	if len(c.Levels) > 1 && c.Start > 0 && c.Stop != 0 {
		add(func(n *FindCase) {
			n.Levels = n.Levels[1:]
			n.Start--
			if n.Stop > 0 {
				n.Stop--
			}
		})
	}
	for i, l := range c.Levels {
		if l.Before {
			add(func(n *FindCase) { n.Levels[i].Before = false })
		}
		if l.After {
			add(func(n *FindCase) { n.Levels[i].After = false })
		}
		if l.Spok != "" {
			add(func(n *FindCase) { n.Levels[i].Spok = "" })
		}
		if l.Variant != "" {
			add(func(n *FindCase) { n.Levels[i].Variant = "" })
		}
	}
	if c.Gone {
		add(func(n *FindCase) { n.Gone = false })
	}
	if c.HomeLink {
		add(func(n *FindCase) { n.HomeLink = false })
	}
	return out
}
