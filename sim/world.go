package spoksim

import (
	"io/fs"
	"os"
	"path/filepath"
	"sort"
	"strings"
	"testing"
)

// World is the sandbox one worker process owns: a directory tree on tmpfs
// plus the process-global state (cwd, environment, os.Args, std streams) that
// an in-process spok invocation reads.
type World struct {
	T      *testing.T
	Root   string // sandbox root (unique per process)
	Home   string // $HOME of the simulated user            Root/home
	Proj   string // default project directory              Root/home/proj
	Ctl    string // command control scripts                Root/ctl
	Log    string // side-effect log written by commands    Root/log
	Other  string // an unrelated directory                 Root/other
	IO     string // captured stdout/stderr per invocation  Root/io
	NumCPU int
	Level  string // "" / "L2": in-process CLI under the simulator; "L3": the real binary as a child process

	hashLeakBase int
}

// NewWorld creates the sandbox under base.
func NewWorld(t *testing.T, base string) *World {
	if rb, err := filepath.EvalSymlinks(base); err == nil {
		base = rb // physical path: the removal veto compares resolved paths
	}
	root := filepath.Join(base, "w") // the driver gives every concurrent worker its own base
	curRoot = root
	w := &World{T: t, Root: root}
	w.Home = filepath.Join(root, "home")
	w.Proj = filepath.Join(w.Home, "proj")
	w.Ctl = filepath.Join(root, "ctl")
	w.Log = filepath.Join(root, "log")
	w.Other = filepath.Join(root, "other")
	w.IO = filepath.Join(root, "io")
	w.Reset()
	return w
}

// Reset empties the sandbox.
func (w *World) Reset() {
	must(os.RemoveAll(w.Root))
	for _, d := range []string{w.Proj, w.Ctl, w.Other, w.IO} {
		must(os.MkdirAll(d, 0o755))
	}
	must(os.WriteFile(w.Log, nil, 0o644))
}

// Close removes the sandbox.
func (w *World) Close() { os.RemoveAll(w.Root) }

func must(err error) {
	if err != nil {
		panic(harnessError{err.Error()})
	}
}

// harnessError marks trouble in the machinery itself (exit 2, never a VIOLATION).
type harnessError struct{ msg string }

func (h harnessError) Error() string { return "harness: " + h.msg }

// WriteFile writes a file below root, creating parents.
func writeFile(path, content string) {
	must(os.MkdirAll(filepath.Dir(path), 0o755))
	must(os.WriteFile(path, []byte(content), 0o644))
}

func readFileOr(path, def string) string {
	b, err := os.ReadFile(path)
	if err != nil {
		return def
	}
	return string(b)
}

// ---------------------------------------------------------------- snapshots

// Entry is one node of a disk snapshot.
type Entry struct {
	Dir     bool
	Link    string // symlink target
	Mode    fs.FileMode
	Content string
}

// Snapshot maps slash-separated paths relative to a root to entries. The root
// itself is ".".
type Snapshot map[string]Entry

// Snap takes a full snapshot of dir.
func Snap(dir string) Snapshot {
	s := Snapshot{}
	err := filepath.WalkDir(dir, func(p string, d fs.DirEntry, err error) error {
		if err != nil {
			if os.IsNotExist(err) {
				return nil
			}
			return err
		}
		rel, _ := filepath.Rel(dir, p)
		rel = filepath.ToSlash(rel)
		info, err := d.Info()
		if err != nil {
			return nil
		}
		switch {
		case d.IsDir():
			s[rel] = Entry{Dir: true, Mode: info.Mode().Perm()}
		case info.Mode()&fs.ModeSymlink != 0:
			t, _ := os.Readlink(p)
			s[rel] = Entry{Link: t}
		default:
			b, err := os.ReadFile(p)
			must(err)
			s[rel] = Entry{Mode: info.Mode().Perm(), Content: string(b)}
		}
		return nil
	})
	must(err)
	return s
}

// Diff lists paths created, removed and changed going from a to b.
func (a Snapshot) Diff(b Snapshot) (created, removed, changed []string) {
	for p, e := range b {
		o, ok := a[p]
		if !ok {
			created = append(created, p)
		} else if o != e {
			changed = append(changed, p)
		}
	}
	for p := range a {
		if _, ok := b[p]; !ok {
			removed = append(removed, p)
		}
	}
	sort.Strings(created)
	sort.Strings(removed)
	sort.Strings(changed)
	return
}

// Restore makes dir equal to snapshot s (used to rewind the disk for crash enumeration).
func Restore(dir string, s Snapshot) {
	must(os.RemoveAll(dir))
	paths := make([]string, 0, len(s))
	for p := range s {
		paths = append(paths, p)
	}
	sort.Strings(paths)
	for _, p := range paths {
		e := s[p]
		full := filepath.Join(dir, filepath.FromSlash(p))
		switch {
		case e.Dir:
			must(os.MkdirAll(full, 0o755))
		case e.Link != "":
			must(os.MkdirAll(filepath.Dir(full), 0o755))
			must(os.Symlink(e.Link, full))
		default:
			must(os.MkdirAll(filepath.Dir(full), 0o755))
			must(os.WriteFile(full, []byte(e.Content), 0o644))
		}
	}
}

// under reports whether path p is dir or below it (both slash paths, relative).
func under(p, dir string) bool {
	return p == dir || strings.HasPrefix(p, dir+"/")
}
