package spoksim

import (
	"fmt"
	"runtime"
	"runtime/debug"
	"sort"
	"strings"
	"sync"
	"testing"
	"testing/synctest"
	"time"
)

// parkedG is a goroutine of the system under test waiting at a yield point.
type parkedG struct {
	site, detail string
	ch           chan struct{}
}

// Scheduler serialises the system's goroutines: every goroutine parks at each
// simhook.Yield and exactly one is released per step, chosen by the Chooser
// from the parked set sorted by (site, detail) — so identity never depends on
// the order in which the Go runtime happened to let them arrive.
type Scheduler struct {
	mu     sync.Mutex
	parked []*parkedG
	ch     *Chooser
	Steps  int
	Budget int      // max steps; exceeding it is a livelock
	Trace  []string // one entry per step
	// AtStep runs on the scheduler goroutine before each pick while every
	// system goroutine is durably blocked: the place for disk mutations.
	AtStep func(step int, parked []string)
}

// Yield is installed as simhook.YieldFn.
func (s *Scheduler) Yield(site, detail string) {
	p := &parkedG{site: site, detail: detail, ch: make(chan struct{})}
	s.mu.Lock()
	s.parked = append(s.parked, p)
	s.mu.Unlock()
	<-p.ch // durably blocked inside the bubble, no lock held
}

// RunOutcome says how a bubble ended.
type RunOutcome struct {
	Returned   bool          // the system call returned (or panicked, see Panic)
	Deadlock   bool          // not returned and nothing left to schedule, also after ten simulated minutes
	SimTime    time.Duration // simulated time the scheduler let pass while the system waited for timers
	Livelock   bool          // step budget exceeded
	Stragglers int           // goroutines still parked at yield points after the call returned (they were drained)
	Leak       bool          // goroutines left blocked in the bubble at its end
	Panic      string        // non-empty: the system goroutine panicked with this value
	PanicStack string
	Crash      *simCrash // the system goroutine was killed at a crash point
	Budget     *simBudget
}

// simCrash is the sentinel a crash point panics with.
type simCrash struct{ Site, Detail string }

// simBudget is the sentinel a step counter panics with when a bounded
// liveness budget is exceeded.
type simBudget struct {
	Site  string
	Count int
}

const bubbleDeadlockMsg = "deadlock: main bubble goroutine has exited but blocked goroutines remain"

// RunBubble runs sys inside a synctest bubble under scheduler s.
func RunBubble(t *testing.T, s *Scheduler, sys func()) (out RunOutcome) {
	defer func() {
		if r := recover(); r != nil {
			if msg := fmt.Sprint(r); strings.HasPrefix(msg, "deadlock:") {
				out.Leak = true
				return
			}
			panic(r)
		}
	}()
	synctest.Test(t, func(t *testing.T) {
		done := make(chan struct{})
		go func() {
			defer close(done)
			defer func() {
				if r := recover(); r != nil {
					switch v := r.(type) {
					case simCrash:
						out.Crash = &v
					case simBudget:
						out.Budget = &v
					default:
						out.Panic = fmt.Sprint(r)
						out.PanicStack = string(debug.Stack())
					}
				}
			}()
			sys()
		}()
		idle, idleStep := time.Duration(0), time.Millisecond
		const maxIdle = 10 * time.Minute
		for {
			synctest.Wait()
			finished := false
			select {
			case <-done:
				finished = true
			default:
			}
			s.mu.Lock()
			P := s.parked
			s.parked = nil
			s.mu.Unlock()
			if len(P) == 0 {
				if finished {
					out.Returned = true
					return
				}
				// Nothing is parked at a yield point and the system has not returned: either it is blocked for
				// good, or it is waiting for a timer (a back-off sleep, a lock wait with timeout). Discrete-event
				// time: let the bubble's clock jump ahead — sleeping here makes every goroutine durably blocked, so
				// the clock advances to the earliest timer, ours or the system's. Only when ten simulated minutes
				// pass without anything becoming runnable is it a deadlock.
				if idle < maxIdle {
					d := idleStep
					idleStep *= 2
					idle += d
					out.SimTime += d
					time.Sleep(d)
					continue
				}
				out.Deadlock = true
				return
			}
			idle, idleStep = 0, time.Millisecond
			if finished {
				out.Stragglers += len(P)
			}
			sort.SliceStable(P, func(i, j int) bool {
				if P[i].site != P[j].site {
					return P[i].site < P[j].site
				}
				return P[i].detail < P[j].detail
			})
			if s.AtStep != nil {
				names := make([]string, len(P))
				for i, p := range P {
					names[i] = p.site + "(" + p.detail + ")"
				}
				s.AtStep(s.Steps, names)
			}
			if s.Budget > 0 && s.Steps >= s.Budget {
				out.Livelock = true
				s.mu.Lock()
				s.parked = append(s.parked, P...)
				s.mu.Unlock()
				return
			}
			i := s.ch.Intn(len(P))
			s.Trace = append(s.Trace, fmt.Sprintf("%s(%s) %d/%d", P[i].site, P[i].detail, i, len(P)))
			s.Steps++
			rest := append(append([]*parkedG(nil), P[:i]...), P[i+1:]...)
			s.mu.Lock()
			s.parked = append(rest, s.parked...)
			s.mu.Unlock()
			close(P[i].ch)
		}
	})
	return out
}

// goroutinesWithFrame counts live goroutines whose stack mentions frame.
func goroutinesWithFrame(frame string) int {
	buf := make([]byte, 1<<20)
	for {
		n := runtime.Stack(buf, true)
		if n < len(buf) {
			buf = buf[:n]
			break
		}
		buf = make([]byte, 2*len(buf))
	}
	c := 0
	for _, g := range strings.Split(string(buf), "\n\n") {
		if strings.Contains(g, frame) {
			c++
		}
	}
	return c
}
