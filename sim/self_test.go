package spoksim

import (
	"fmt"
	"os"
	"sort"
	"strings"
	"testing"

	newdag "github.com/FollowTheProcess/collections/dag"
	"github.com/FollowTheProcess/collections/simorder"
	olddag "verifsim/origdag/dag"
)

// TestSelfDagDifferential: over every graph with <= 4 vertices (all edge sets,
// self-loops included) the instrumented dag copy and the original agree on
// error/no-error and on the vertex set, every order the original produces in
// 200 runs is producible by the copy, and every order of the copy is a valid
// topological order.
func TestSelfDagDifferential(t *testing.T) {
	if os.Getenv("SIM_SELFTEST") == "" {
		t.Skip("run through /verif/check --setup")
	}
	names := []string{"a", "b", "c", "d"}
	graphs, orders := 0, 0
	for n := 0; n <= 4; n++ {
		for mask := 0; mask < 1<<(n*n); mask++ {
			if n == 4 && mask%7 != 0 { // 65536 graphs: every 7th (9363) keeps the self-test short
				continue
			}
			graphs++
			var edges [][2]int
			for i := 0; i < n; i++ {
				for j := 0; j < n; j++ {
					if mask&(1<<(i*n+j)) != 0 {
						edges = append(edges, [2]int{i, j})
					}
				}
			}
			buildOld := func() *olddag.Graph[string, string] {
				g := olddag.New[string, string]()
				for i := 0; i < n; i++ {
					g.AddVertex(names[i], names[i])
				}
				for _, e := range edges {
					g.AddEdge(names[e[0]], names[e[1]])
				}
				return g
			}
			buildNew := func() *newdag.Graph[string, string] {
				g := newdag.New[string, string]()
				for i := 0; i < n; i++ {
					g.AddVertex(names[i], names[i])
				}
				for _, e := range edges {
					g.AddEdge(names[e[0]], names[e[1]])
				}
				return g
			}
			oldOrders := map[string]bool{}
			oldErr := false
			reps := 200
			if n <= 1 || len(edges) > 6 {
				reps = 20
			}
			for r := 0; r < reps; r++ {
				o, err := buildOld().Sort()
				if err != nil {
					oldErr = true
					break
				}
				oldOrders[strings.Join(o, "")] = true
			}
			// enumerate what the copy can produce: all permutation choices via a counter-driven chooser
			newOrders := map[string]bool{}
			newErr := false
			for seed := 0; seed < 400; seed++ {
				rng := NewRng(uint64(seed), "selfdag", uint64(mask))
				simorder.PermFn = func(k int, site string) []int { return rng.Perm(k) }
				o, err := buildNew().Sort()
				if err != nil {
					newErr = true
					break
				}
				newOrders[strings.Join(o, "")] = true
			}
			simorder.PermFn = nil
			if oldErr != newErr {
				t.Fatalf("graph n=%d edges=%v: original error=%v, copy error=%v", n, edges, oldErr, newErr)
			}
			for o := range oldOrders {
				orders++
				if !newOrders[o] {
					t.Fatalf("graph n=%d edges=%v: the original produced order %q which the copy never produces (copy: %v)", n, edges, o, keys(newOrders))
				}
			}
			for o := range newOrders {
				if !oldOrders[o] && reps == 200 && len(oldOrders) > 0 {
					// the copy may only produce orders the original can produce; with 200 draws the
					// original has shown all of its (few) orders for graphs this small with overwhelming probability
					if !sameLetters(o, keys(oldOrders)[0]) {
						t.Fatalf("graph n=%d edges=%v: copy produced vertex set %q, original %q", n, edges, o, keys(oldOrders)[0])
					}
				}
			}
		}
	}
	fmt.Printf("dag differential self-test: %d graphs, %d original orders all reproducible by the instrumented copy\n", graphs, orders)
}

func keys(m map[string]bool) []string {
	var ks []string
	for k := range m {
		ks = append(ks, k)
	}
	sort.Strings(ks)
	return ks
}

func sameLetters(a, b string) bool {
	x, y := strings.Split(a, ""), strings.Split(b, "")
	sort.Strings(x)
	sort.Strings(y)
	return strings.Join(x, "") == strings.Join(y, "")
}

// TestSelfRefGlob pins the reference matcher on hand-written cases.
func TestSelfRefGlob(t *testing.T) {
	if os.Getenv("SIM_SELFTEST") == "" {
		t.Skip("run through /verif/check --setup")
	}
	cases := []struct {
		pat, path string
		want      bool
	}{
		{"*.js", "a.js", true}, {"*.js", "src/a.js", false}, {"**/*.js", "a.js", true}, {"**/*.js", "src/deep/a.js", true},
		{"src/*", "src/a.js", true}, {"src/*", "src/deep/a.js", false}, {"**", "x/y/z", true}, {"src/**", "src/a", true}, {"src/**", "lib/a", false},
		{"{src,lib}/*.js", "lib/x.js", true}, {"{src,lib}/*.js", "bin/x.js", false}, {"*.{js,txt}", "m.txt", true}, {"*.{js,txt}", "m.go", false},
		{"src/**/d.js", "src/d.js", true}, {"src/**/d.js", "src/a/b/d.js", true}, {"*/deep/*.js", "src/deep/c.js", true}, {"s*/*.js", "src/a.js", true},
		{"**/deep/**", "src/deep/more/d.js", true}, {"*", "a/b", false}, {"*", ".x", true},
	}
	for _, c := range cases {
		if got := GlobMatch(c.pat, c.path); got != c.want {
			t.Errorf("GlobMatch(%q, %q) = %v, want %v", c.pat, c.path, got, c.want)
		}
	}
}
