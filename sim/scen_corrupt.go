package spoksim

import (
	"encoding/json"
	"fmt"
	"path/filepath"
	"regexp"
	"strconv"
	"strings"
	"sync/atomic"

	"github.com/FollowTheProcess/spok/parser"
	"github.com/FollowTheProcess/spok/simhook"
)

// CorruptCase is one case of scenario corruptspok (C08): a valid program
// whose stored text is damaged by storage faults.
type CorruptCase struct {
	Base      []byte   `json:"base"` // the valid spokfile as written
	Faults    []SFault `json:"faults"`
	EnumTrunc bool     `json:"enum_trunc,omitempty"` // instead of Faults: every truncation point in turn
	CLI       bool     `json:"cli,omitempty"`        // also load it through `spok --show`
}

// SFault is one storage fault.
type SFault struct {
	Kind string `json:"kind"` // trunc | flip | splice | dropline | dupline
	Pos  int    `json:"pos"`
	Val  byte   `json:"val,omitempty"`
	Data []byte `json:"data,omitempty"`
}

type corruptScen struct{}

func init() { register(corruptScen{}) }

func (corruptScen) Name() string    { return "corruptspok" }
func (corruptScen) Props() []string { return []string{"C08"} }
func (corruptScen) Decode(raw json.RawMessage) (any, error) {
	var c CorruptCase
	err := json.Unmarshal(raw, &c)
	return &c, err
}
func (corruptScen) Rule(string) string {
	return "case = a valid generated spokfile (variables with string/join/exec values, comments, tasks with docstrings, dependencies, outputs, commands with {{.NAME}} interpolations, multi-byte letters, LF and some CRLF) damaged by 1-3 storage faults: truncation at byte k (1 case in 8: every k in turn), one byte flipped to a value from a class table (0x00, 0x80, 0xFF, quote, braces, parens, #, CR, LF, space, letters), a slice of another valid program spliced in, a line dropped or duplicated; parsed twice by the real parser.New(src).Parse() (lexer goroutine + parser inside a bubble, step budgets on simhook.Point(parser.next / lexer.next)) and, for programs without exec, loaded through `spok --show`. distinct_nontrivial = distinct (fault kinds, outcome class, error-message class) tuples plus distinct damaged inputs."
}

var coIdents = []string{"VERSION", "NAME", "tâche", "Ünïcode", "x", "long_name_with_underscores"}
var coStrings = []string{"hello", "héllo wörld", "a b c", "", "**/*.go", "file.txt", "{{weird}}", "#notcomment", "ünï/côde.txt"}
var coCmds = []string{"echo hello", "go test ./...", "echo {{.VERSION}}", "mkdir -p {{.NAME}}/bin", "echo one && echo two", "cat file | wc -l", "echo \"quoted\"", "ls -la $HOME",
	`dir C:\`, `echo one \`, `printf 'a\nb\n'`, `echo C:\tools\bin`, `echo \\`}

func genValidSpokfile(r *Rng) string {
	var b strings.Builder
	nl := "\n"
	if r.Chance(1, 8) {
		nl = "\r\n"
	}
	n := r.Range(1, 6)
	for i := 0; i < n; i++ {
		switch r.Intn(4) {
		case 0:
			fmt.Fprintf(&b, "# %s%s", Pick(r, []string{"a comment", "TODO: ünï", "", "x"}), nl)
		case 1:
			name := Pick(r, coIdents[:2])
			switch r.Intn(3) {
			case 0:
				fmt.Fprintf(&b, "%s := \"%s\"%s", name, Pick(r, coStrings), nl)
			case 1:
				fmt.Fprintf(&b, "%s := join(\"%s\", \"%s\")%s", name, Pick(r, coStrings), Pick(r, coStrings), nl)
			default:
				fmt.Fprintf(&b, "%s := exec(\"echo %s\")%s", name, Pick(r, []string{"v1", "hi there"}), nl)
			}
		default:
			if r.Chance(1, 2) {
				fmt.Fprintf(&b, "# %s%s", Pick(r, []string{"Run the tests", "Build ünï"}), nl)
			}
			name := Pick(r, append([]string{"test", "build", "lint"}, coIdents[2:]...))
			var deps []string
			for k := r.Intn(4); k > 0; k-- {
				if r.Chance(1, 3) {
					deps = append(deps, Pick(r, []string{"lint", "fmt", "tâche"}))
				} else {
					deps = append(deps, `"`+Pick(r, coStrings)+`"`)
				}
			}
			fmt.Fprintf(&b, "task %s(%s)", name, strings.Join(deps, Pick(r, []string{", ", ","})))
			switch r.Intn(4) {
			case 0:
				fmt.Fprintf(&b, " -> \"%s\"", Pick(r, coStrings))
			case 1:
				fmt.Fprintf(&b, " -> (\"%s\", %s)", Pick(r, coStrings), Pick(r, coIdents[:2]))
			case 2:
				fmt.Fprintf(&b, " -> %s", Pick(r, coIdents[:2]))
			}
			nc := r.Intn(4)
			if nc == 0 && r.Chance(1, 2) {
				b.WriteString(" {}" + nl)
			} else if nc == 1 && r.Chance(1, 3) {
				fmt.Fprintf(&b, " { %s }%s", Pick(r, coCmds), nl)
			} else {
				b.WriteString(" {" + nl)
				for k := 0; k < nc; k++ {
					fmt.Fprintf(&b, "%s%s%s", Pick(r, []string{"    ", "\t", "  "}), Pick(r, coCmds), nl)
				}
				b.WriteString("}" + nl)
			}
		}
		if r.Chance(1, 2) {
			b.WriteString(nl)
		}
	}
	return b.String()
}

// coInserts are multi-byte sequences a damaged or unusually encoded file may contain.
var coInserts = [][]byte{[]byte("\u2028"), []byte("\u2029"), []byte("\u0085"), []byte("\u00a0"), {0xEF, 0xBB, 0xBF}, []byte("é"), []byte("😀"), {0x80}, {0xE2, 0x80},
	[]byte("\u200b"), []byte("\u3000"), []byte("\r"), []byte("\x0b"), []byte("\x0c")}

var coFlipVals = []byte{0x00, 0x80, 0xFF, '"', '{', '}', '(', ')', '#', '\r', '\n', ' ', 'a', 'Z', ':', '=', ',', '-', '>', 0xC3, '\t', '_', '0', '\\'}

func (corruptScen) Gen(r *Rng, cfg GenConfig) any {
	// generation never calls the system under test (a panic there would kill the worker outside any case)
	base := genValidSpokfile(r)
	c := &CorruptCase{Base: []byte(base), CLI: r.Chance(1, 3) && !strings.Contains(base, "exec(")}
	if len(base) <= 400 && r.Chance(1, 8) {
		c.EnumTrunc = true
		return c
	}
	if r.Chance(1, 40) {
		// a line longer than common buffer sizes (64 KiB scanners, 4 KiB pages) somewhere before the damage
		n := Pick(r, []int{4100, 65600, 70000, 140000})
		long := strings.Repeat("x", n)
		line := "# " + long + "\n"
		if r.Chance(1, 2) {
			line = "LONG := \"" + long + "\"\n"
		}
		pos := 0
		if i := strings.Index(base, "\n"); i >= 0 && r.Chance(1, 2) {
			pos = i + 1
		}
		c.Faults = append(c.Faults, SFault{Kind: "splice", Pos: pos, Data: []byte(line)})
	}
	nf := Pick(r, []int{1, 1, 1, 2, 3})
	if r.Chance(1, 12) {
		nf = 0 // the undamaged program
	}
	for i := 0; i < nf; i++ {
		f := SFault{Pos: r.Intn(len(base) + 1)}
		switch r.Intn(9) {
		case 0, 1, 2:
			f.Kind = "trunc"
		case 3, 4:
			f.Kind, f.Val = "flip", Pick(r, coFlipVals)
		case 5:
			other := genValidSpokfile(r)
			a := r.Intn(len(other) + 1)
			bnd := a + r.Intn(len(other)-a+1)
			f.Kind, f.Data = "splice", []byte(other[a:bnd])
		case 6:
			if r.Chance(1, 2) {
				f.Kind = "dropline"
			} else {
				f.Kind = "dupline"
			}
		default:
			f.Kind, f.Data = "splice", Pick(r, coInserts)
			// half of the time close to a quote, where string literals start and end
			if r.Chance(1, 2) {
				var qs []int
				for i := 0; i < len(base); i++ {
					if base[i] == '"' {
						qs = append(qs, i)
					}
				}
				if len(qs) > 0 {
					f.Pos = Pick(r, qs) + r.Intn(4)
					if f.Pos > len(base) {
						f.Pos = len(base)
					}
				}
			}
		}
		c.Faults = append(c.Faults, f)
	}
	return c
}

func applyFault(src []byte, f SFault) []byte {
	if len(src) == 0 {
		return src
	}
	pos := f.Pos % (len(src) + 1)
	switch f.Kind {
	case "trunc":
		return src[:pos]
	case "flip":
		if pos >= len(src) {
			pos = len(src) - 1
		}
		out := append([]byte{}, src...)
		out[pos] = f.Val
		return out
	case "splice":
		out := append([]byte{}, src[:pos]...)
		out = append(out, f.Data...)
		return append(out, src[pos:]...)
	case "dropline", "dupline":
		lines := strings.SplitAfter(string(src), "\n")
		i := pos % len(lines)
		var out []string
		for j, l := range lines {
			if j == i && f.Kind == "dropline" {
				continue
			}
			out = append(out, l)
			if j == i && f.Kind == "dupline" {
				out = append(out, l)
			}
		}
		return []byte(strings.Join(out, ""))
	}
	return src
}

var lineRe = regexp.MustCompile(`(?i)line\s+(\d+)`)
var anyNumRe = regexp.MustCompile(`\d+`)

type parseObs struct {
	ok       bool
	errText  string
	out      RunOutcome
	nodes    int
	pNext    int64
	lNext    int64
	exceeded string
}

func (w *World) parseOnce(src string) parseObs {
	var o parseObs
	var pn, ln atomic.Int64
	pBudget, lBudget := int64(4*len(src)+16), int64(64*(len(src)+1))
	simhook.PointFn = func(site, detail string) {
		switch site {
		case "parser.next":
			if pn.Add(1) > pBudget {
				panic(simBudget{Site: site, Count: int(pn.Load())})
			}
		case "lexer.next":
			if ln.Add(1) > lBudget {
				select {} // the lexer goroutine: park for ever, the scheduler reports the deadlock
			}
		}
	}
	s := &Scheduler{ch: NewChooser(Sched{Policy: "fifo"}, 0), Budget: 1000}
	o.out = RunBubble(w.T, s, func() {
		tree, err := parser.New(src).Parse()
		if err != nil {
			o.errText = err.Error()
		} else {
			o.ok = true
		}
		o.nodes = len(tree.Nodes)
	})
	uninstallHooks()
	o.pNext, o.lNext = pn.Load(), ln.Load()
	if o.out.Budget != nil {
		o.exceeded = "parser.next"
	} else if o.out.Deadlock && ln.Load() > lBudget {
		o.exceeded = "lexer.next"
	}
	return o
}

func (corruptScen) Exec(w *World, cc any, prop string) *Result {
	c := cc.(*CorruptCase)
	res := newResult()
	var inputs [][]byte
	var labels []string
	if c.EnumTrunc {
		for k := 0; k <= len(c.Base); k++ {
			inputs = append(inputs, c.Base[:k])
			labels = append(labels, "trunc")
		}
		res.count("fault_fired:truncation_enumerated")
	} else {
		src := c.Base
		var ks []string
		for _, f := range c.Faults {
			src = applyFault(src, f)
			ks = append(ks, f.Kind)
			res.count("fault_fired:" + f.Kind)
		}
		inputs = append(inputs, src)
		labels = append(labels, strings.Join(ks, "+"))
	}
	for i, srcb := range inputs {
		src := string(srcb)
		a := w.parseOnce(src)
		b := w.parseOnce(src)
		res.Ops += 2
		sig := "parse:" + labels[i]
		class := "tree"
		if !a.ok {
			class = "error:" + errClass(a.errText)
		}
		res.event("parse len=%d sha=%s -> %s nodes=%d next=%d/%d", len(src), shortHash(src), class, a.nodes, a.pNext, a.lNext)
		res.distinct(labels[i] + "|" + class)
		res.distinct("input:" + shortHash(src))
		switch {
		case a.out.Panic != "":
			res.violate("C08", "no-panic", sig, "parsing %q panicked: %s", short(src, 200), short(a.out.Panic, 300))
		case a.exceeded != "":
			res.violate("C08", "terminates", sig, "parsing %q exceeded the step budget at %s (%d parser steps, %d lexer steps for %d bytes)", short(src, 200), a.exceeded, a.pNext, a.lNext, len(src))
		case a.out.Deadlock || a.out.Livelock:
			res.violate("C08", "terminates", sig, "parsing %q never returned (parser and lexer both blocked)", short(src, 200))
		}
		if res.first("C08") != nil {
			return res
		}
		if a.ok != b.ok || a.errText != b.errText || a.nodes != b.nodes {
			res.violate("C08", "same-input-same-result", sig, "parsing %q twice gave %q/%d nodes and then %q/%d nodes", short(src, 200), short(a.errText, 100), a.nodes, short(b.errText, 100), b.nodes)
			return res
		}
		if !a.ok {
			res.count("probe:parse_error")
			if a.out.Leak {
				res.count("probe:lexer_goroutine_left_blocked_after_error")
			}
			lines := strings.Split(src, "\n")
			m := lineRe.FindStringSubmatch(a.errText)
			if m == nil {
				// the wording of the citation is not specified ("line 3", "3:", "L3" ...): accept any
				// number in the message that is a line of the input whose text the message quotes
				for _, num := range anyNumRe.FindAllString(a.errText, -1) {
					if k, err := strconv.Atoi(num); err == nil && k >= 1 && k <= len(lines) {
						if t := strings.TrimSpace(lines[k-1]); t == "" || strings.Contains(a.errText, t) {
							m = []string{num, num}
							res.count("accept_either:line_cited_in_another_wording")
							break
						}
					}
				}
			}
			if m == nil {
				res.violate("C08", "error-cites-a-line", sig, "the syntax error for %q cites no line number: %q", short(src, 200), short(a.errText, 300))
				return res
			}
			n, _ := strconv.Atoi(m[1])
			if n < 1 || n > len(lines) {
				res.violate("C08", "error-cites-a-line", sig, "the syntax error for %q cites line %d; the input has %d line(s): %q", short(src, 200), n, len(lines), short(a.errText, 300))
				return res
			}
			if t := strings.TrimSpace(lines[n-1]); t != "" && !strings.Contains(a.errText, t) {
				res.violate("C08", "error-quotes-the-line", sig, "the syntax error for %q cites line %d but does not quote it (%q): %q", short(src, 200), n, short(t, 100), short(a.errText, 300))
				return res
			}
			if n == len(lines) || (n == len(lines)-1 && lines[len(lines)-1] == "") {
				res.count("probe:error_located_on_last_line")
			}
		} else {
			res.count("probe:parsed_to_a_tree")
		}
	}
	if c.CLI && !c.EnumTrunc {
		src := string(inputs[0])
		writeFile(filepath.Join(w.Proj, "spokfile"), src)
		f := NoFaults()
		f.Budgets = map[string]int{"parser.next": 4*len(src) + 16, "lexer.next": 64 * (len(src) + 1)}
		var first *Obs
		for k := 0; k < 2; k++ {
			obs := w.Invoke(Invocation{Args: []string{"--show"}, Cwd: w.Proj, Env: w.BaseEnv(), Inv: k, Sched: Sched{Policy: "fifo"}, Faults: f})
			res.Ops++
			res.event("show failed=%v err=%s out=%s", obs.Failed, normHash(obs.ErrText), outcomeStr(obs.Out))
			switch {
			case obs.Out.Panic != "":
				res.violate("C08", "no-panic", "cli", "`spok --show` on %q panicked: %s", short(src, 200), short(obs.Out.Panic, 300))
				return res
			case obs.Out.Budget != nil || obs.Out.Deadlock || obs.Out.Livelock:
				res.violate("C08", "terminates", "cli", "`spok --show` on %q did not terminate within the step budget (%s)", short(src, 200), outcomeStr(obs.Out))
				return res
			}
			if first == nil {
				first = obs
			} else if first.Failed != obs.Failed || first.ErrText != obs.ErrText || first.Stdout != obs.Stdout {
				res.violate("C08", "same-input-same-result", "cli", "`spok --show` on %q gave different results on two runs", short(src, 200))
				return res
			}
		}
		res.count("probe:loaded_through_cli")
	}
	return res
}

func errClass(e string) string {
	switch {
	case strings.HasPrefix(e, "SyntaxError"):
		if i := strings.Index(e, "(Line"); i > 0 {
			e = e[:i]
		}
		f := strings.Fields(e)
		if len(f) > 4 {
			f = f[:4]
		}
		return strings.Join(f, "_")
	case strings.HasPrefix(e, "Illegal Token"):
		return "IllegalToken"
	}
	return "other"
}

func (corruptScen) Shrinks(cc any) []any {
	c := cc.(*CorruptCase)
	var out []any
	add := func(f func(n *CorruptCase)) {
		n := cloneJSON(*c)
		f(&n)
		out = append(out, &n)
	}
	if c.CLI {
		add(func(n *CorruptCase) { n.CLI = false })
	}
	if c.EnumTrunc {
		// pin the first failing truncation
		for k := 0; k <= len(c.Base); k++ {
			add(func(n *CorruptCase) { n.EnumTrunc = false; n.Faults = []SFault{{Kind: "trunc", Pos: k}} })
		}
		return out
	}
	// materialise the damaged text as the new base, then shrink the text itself
	if len(c.Faults) > 0 {
		add(func(n *CorruptCase) {
			src := n.Base
			for _, f := range n.Faults {
				src = applyFault(src, f)
			}
			n.Base, n.Faults = src, nil
		})
		for i := range c.Faults {
			add(func(n *CorruptCase) { n.Faults = append(n.Faults[:i:i], n.Faults[i+1:]...) })
		}
		return out
	}
	lines := strings.SplitAfter(string(c.Base), "\n")
	if len(lines) > 1 {
		for i := range lines {
			add(func(n *CorruptCase) {
				n.Base = []byte(strings.Join(append(append([]string{}, lines[:i]...), lines[i+1:]...), ""))
			})
		}
	}
	// drop chunks of bytes
	for _, size := range []int{16, 4, 1} {
		for i := 0; i+size <= len(c.Base) && len(out) < 400; i += size {
			add(func(n *CorruptCase) { n.Base = append(append([]byte{}, c.Base[:i]...), c.Base[i+size:]...) })
		}
	}
	return out
}
