package spoksim

import (
	"encoding/json"
	"fmt"
	"golang.org/x/sys/unix"
	"os"
	"path/filepath"
	"sort"
	"strings"
)

// ---------------------------------------------------------------- case

// CHOp is one operation of a cachehist history.
type CHOp struct {
	Op      string   `json:"op"` // write | delete | run | ctl | rmcache
	Path    string   `json:"path,omitempty"`
	Content string   `json:"content,omitempty"`
	Tasks   []string `json:"tasks,omitempty"`
	Force   bool     `json:"force,omitempty"`
	JSON    bool     `json:"json,omitempty"`
	Quiet   bool     `json:"quiet,omitempty"`
	Cwd     string   `json:"cwd,omitempty"` // relative to the project root
	Task    string   `json:"task,omitempty"`
	Cmd     int      `json:"cmd,omitempty"`
	Exit    int      `json:"exit,omitempty"` // ctl: 0 = succeed, N = `exit N`
	What    string   `json:"what,omitempty"` // rmcache: dir | file
	// ViaClean: the run is `spok --clean` (which runs the user's task named clean) instead of `spok clean`
	ViaClean bool `json:"via_clean,omitempty"`
	// Spokfile: "" = found by climbing from cwd; "abs" / "rel" = named with --spokfile (relative to cwd);
	// with "home" the invocation is made from $HOME (outside the project) with --spokfile proj/spokfile
	Spokfile string `json:"spokfile,omitempty"`
	// CacheRO (run, level L2): spok's cache cannot be written during this invocation (every cache write fails with
	// EACCES, nothing reaches the disk)
	CacheRO bool `json:"cache_ro,omitempty"`
}

// CHCase is one case of scenario cachehist.
type CHCase struct {
	Prog Program           `json:"prog"`
	Disk map[string]string `json:"disk"`
	// Links: dependency files that are symbolic links (path -> target path, both relative to the project root);
	// the content a task depends on is the content of the target
	Links map[string]string `json:"links,omitempty"`
	// FixedMtime: every dependency file always carries the same modification time (and the content pool has
	// equal sizes), as after `cp -p`, `touch -r`, a restore from backup or on a coarse-clocked file system:
	// size and mtime do not identify content
	FixedMtime bool `json:"fixed_mtime,omitempty"`
	// Via: every invocation addresses the project through a symbolic link in its path ($HOME/via -> .): working
	// directory, $PWD and --spokfile carry $HOME/via/proj/..., the files live in $HOME/proj
	Via bool `json:"via,omitempty"`
	// Scale variants (rare): Wide = the first task also depends on the glob big/*.c, which matches this many files;
	// AllFail = every command of the first task (which then has a few hundred commands) is set to fail at the start
	// Nofile (level L3 only): every invocation of the real binary runs with this open-file limit (RLIMIT_NOFILE)
	Nofile  int    `json:"nofile,omitempty"`
	Wide    int    `json:"wide,omitempty"`
	AllFail bool   `json:"all_fail,omitempty"`
	Ops     []CHOp `json:"ops"`
	Sched   Sched  `json:"sched"`
}

type cachehist struct{}

// WantsL3: what the process exit status does with hundreds of failures is visible only in the real binary.
func (cachehist) WantsL3(cc any) bool { return cc.(*CHCase).AllFail || cc.(*CHCase).Nofile > 0 }

func init() { register(cachehist{}) }

func (cachehist) Name() string    { return "cachehist" }
func (cachehist) Props() []string { return []string{"C01", "C02", "C09", "C14", "C18"} }

func (cachehist) Decode(raw json.RawMessage) (any, error) {
	var c CHCase
	err := json.Unmarshal(raw, &c)
	return &c, err
}

func (cachehist) Rule(prop string) string {
	return "case = a spokfile of 1-3 tasks (1-4 for C09) mixing literal-file, glob and task dependencies (tasks without file dependencies, tasks sharing a file, a glob covering a literal, hidden files in the tree) + a history of 4-14 operations over {create/edit/revert/delete a dependency file, add/remove a file matching a glob, run any subset of tasks with/without --force/--json/--quiet from the root or a nested directory, make a command exit with status N (by `exit N`, or by `false` under ;-separated statements that rely on errexit), remove the cache directory or file, leave a stray file (copy of the cache, garbage, empty) beside cache.json, re-point a dependency link}; one case in ten has two tasks whose names differ only in capitalisation; every invocation is the real CLI in-process under the seeded scheduler with a seeded dag order. Oracle = reference model last[T] (inputs of the last success). distinct_nontrivial = distinct (per-task state class before the run, flags, observed outcome per task) tuples over all run operations, where the state class of a task is (never succeeded | last success on current inputs | last success on other inputs) x (has file deps) x (command set to fail)."
}

// ---------------------------------------------------------------- generation

var chTaskNames = []string{"AAAAAA", "BBBBBB", "CCCCCC", "DDDDDD"}
var chFiles = []string{"a.txt", "b.txt", "src/x.c", "src/y.c", "src/sub/z.c", ".h.txt", "src/.hid.c", "src/n.h", "-d.txt"}
var chLiteral = []string{"a.txt", "b.txt", "src/x.c", "src/n.h"}
var chGlobs = []string{"*.txt", "src/*.c", "**/*.c", "src/**", "src/**/*.c", "{a,b}*.txt", "./*.txt", "./src/*.c", ".*", ".*.txt"}
var chContents = []string{"1", "2", "3"}
var chCwds = []string{"", "", "", "src", "src/sub"}
var chExits = []int{1, 2, 127, 128, 255, 75, 126, 130, 137, 64, 78} // incl. sysexits (75 = EX_TEMPFAIL) and 128+signal

func genProgram(r *Rng, maxTasks int) Program {
	p := Program{Layout: r.Intn(6)}
	n := r.Range(1, maxTasks)
	for i := 0; i < n; i++ {
		t := TaskDef{Name: chTaskNames[i], NCmd: Pick(r, []int{1, 1, 1, 2})}
		if r.Chance(1, 3) {
			t.Doc = "doc of " + t.Name
		}
		kind := r.Intn(10)
		switch {
		case kind == 0:
			// no file dependencies at all
		case kind <= 4:
			t.Deps = append(t.Deps, Dep{"file", Pick(r, chLiteral)})
			if r.Chance(1, 3) {
				t.Deps = append(t.Deps, Dep{"file", Pick(r, chLiteral)})
			}
		case kind <= 7:
			t.Deps = append(t.Deps, Dep{"glob", Pick(r, chGlobs)})
		default:
			t.Deps = append(t.Deps, Dep{"glob", Pick(r, chGlobs)}, Dep{"file", Pick(r, chLiteral)})
		}
		if i > 0 && r.Chance(2, 5) {
			t.Deps = append(t.Deps, Dep{"task", chTaskNames[r.Intn(i)]})
			if i > 1 && r.Chance(1, 3) {
				t.Deps = append(t.Deps, Dep{"task", chTaskNames[r.Intn(i)]})
			}
		}
		t.Deps = Shuffled(r, dedupDeps(t.Deps))
		p.Tasks = append(p.Tasks, t)
	}
	return p
}

// addWriter turns one task into a generator/formatter that overwrites a literal
// dependency file of later tasks; every later task reading that file gets a task
// dependency on the writer, so the order "writer before reader" is determined.
func addWriter(r *Rng, p *Program) {
	if len(p.Tasks) < 2 {
		return
	}
	wi := 0 // the first task has no task dependencies, so readers may depend on it without creating a cycle
	f := Pick(r, chLiteral)
	p.Tasks[wi].Writes = []FileWrite{{Path: f, Content: Pick(r, []string{"gen1", "gen2", ""})}} // "": echo writes a lone newline, the size of the pool contents
	if r.Chance(1, 2) {                                                                         // formatter style: it also depends on the file it rewrites
		p.Tasks[wi].Deps = dedupDeps(append(p.Tasks[wi].Deps, Dep{"file", f}))
	}
	readers := 0
	for i := wi + 1; i < len(p.Tasks); i++ {
		reads := false
		for _, d := range p.Tasks[i].Deps {
			if d.Kind == "file" && d.Value == f {
				reads = true
			}
		}
		if !reads && readers == 0 && i == len(p.Tasks)-1 {
			p.Tasks[i].Deps = append(p.Tasks[i].Deps, Dep{"file", f})
			reads = true
		}
		if reads {
			readers++
			p.Tasks[i].Deps = dedupDeps(append(p.Tasks[i].Deps, Dep{"task", p.Tasks[wi].Name}))
		}
	}
	// no other task may read the file through a glob (the order would be undetermined):
	// drop globs that could match it
	for i := range p.Tasks {
		var ds []Dep
		for _, d := range p.Tasks[i].Deps {
			if d.Kind == "glob" && GlobMatch(d.Value, f) {
				continue
			}
			ds = append(ds, d)
		}
		p.Tasks[i].Deps = ds
	}
	// same dependency list for writer and reader now and then (shared-digest shortcuts)
	if r.Chance(1, 2) && wi+1 < len(p.Tasks) {
		var ds []Dep
		for _, d := range p.Tasks[wi].Deps {
			if d.Kind != "task" {
				ds = append(ds, d)
			}
		}
		last := &p.Tasks[len(p.Tasks)-1]
		var keep []Dep
		for _, d := range last.Deps {
			if d.Kind == "task" {
				keep = append(keep, d)
			}
		}
		if len(ds) > 0 {
			last.Deps = dedupDeps(append(append(keep, Dep{"task", p.Tasks[wi].Name}), ds...))
		}
	}
}

func dedupDeps(ds []Dep) []Dep {
	seen := map[Dep]bool{}
	var out []Dep
	for _, d := range ds {
		if !seen[d] {
			seen[d] = true
			out = append(out, d)
		}
	}
	return out
}

func (cachehist) Gen(r *Rng, cfg GenConfig) any {
	maxTasks := 3
	if cfg.Prop == "C09" || (cfg.Tier == "thorough" && r.Chance(1, 3)) {
		maxTasks = 4
	}
	c := &CHCase{Prog: genProgram(r, maxTasks), Disk: map[string]string{}, Sched: genSched(r)}
	if cfg.Prop != "nowriters" && r.Chance(1, 5) {
		addWriter(r, &c.Prog)
	}
	linkOdds := 8
	if cfg.Prop == "C18" {
		linkOdds = 2
	}
	if cfg.Prop != "nowriters" && r.Chance(1, linkOdds) {
		// a dependency that is a symbolic link to another file of the project: editing the TARGET changes
		// the task's inputs. Link names are never edited or deleted by operations.
		ln := Pick(r, [][2]string{{"ln.txt", "a.txt"}, {"src/ln.c", "src/x.c"}, {"ln.txt", "src/n.h"}})
		writes := false
		for _, t := range c.Prog.Tasks {
			for _, fw := range t.Writes {
				if fw.Path == ln[1] {
					writes = true
				}
			}
		}
		if !writes {
			c.Links = map[string]string{ln[0]: ln[1]}
			ti := r.Intn(len(c.Prog.Tasks))
			c.Prog.Tasks[ti].Deps = dedupDeps(append(c.Prog.Tasks[ti].Deps, Dep{"file", ln[0]}))
		}
	}
	c.FixedMtime = r.Chance(1, 4)
	c.Via = cfg.Prop != "nowriters" && r.Chance(1, 8)
	if cfg.Prop != "nowriters" && r.Chance(1, 150) {
		c.Wide = Pick(r, []int{130, 513, 600, 1100})
		c.Prog.Tasks[0].Deps = append(c.Prog.Tasks[0].Deps, Dep{"glob", "big/*.c"})
	}
	if (cfg.Prop == "C18" || cfg.Prop == "C01") && r.Chance(1, 40) {
		c.Nofile = Pick(r, []int{32, 28})
	}
	if cfg.Prop == "C09" && r.Chance(1, 300) {
		c.AllFail = true
		c.Prog.Tasks[0].NCmd = Pick(r, []int{255, 256, 257, 512})
	}
	c.Prog.Seq = r.Chance(1, 4)
	if cfg.Prop != "nowriters" && len(c.Prog.Tasks) >= 2 && r.Chance(1, 12) {
		// a task that another one depends on gets a "private"-looking name with a leading underscore
		for i := range c.Prog.Tasks {
			old := c.Prog.Tasks[i].Name
			used := false
			for k := range c.Prog.Tasks {
				for _, d := range c.Prog.Tasks[k].Deps {
					if d.Kind == "task" && d.Value == old {
						used = true
					}
				}
			}
			if !used || old == "clean" {
				continue
			}
			nn := "_" + strings.ToLower(old)
			c.Prog.Tasks[i].Name = nn
			for k := range c.Prog.Tasks {
				for di := range c.Prog.Tasks[k].Deps {
					if c.Prog.Tasks[k].Deps[di].Kind == "task" && c.Prog.Tasks[k].Deps[di].Value == old {
						c.Prog.Tasks[k].Deps[di].Value = nn
					}
				}
			}
			break
		}
	}
	if len(c.Prog.Tasks) >= 2 && r.Chance(1, 10) {
		// two tasks whose names differ only in letter case, with the same dependencies: distinct tasks
		src, dst := &c.Prog.Tasks[0], &c.Prog.Tasks[len(c.Prog.Tasks)-1]
		if len(dst.Writes) == 0 && len(src.Writes) == 0 && dst.Name != "clean" {
			old := dst.Name
			dst.Name = strings.ToLower(src.Name)
			if dst.Name == src.Name {
				dst.Name = src.Name + "x"
			}
			if r.Chance(1, 2) {
				dst.Name = src.Name + Pick(r, []string{"B", "_all", "x"}) // or one name is a prefix of the other
			}
			var ds []Dep
			for _, d := range src.Deps {
				if d.Kind != "task" {
					ds = append(ds, d)
				}
			}
			dst.Deps = ds
			for i := range c.Prog.Tasks {
				for k := range c.Prog.Tasks[i].Deps {
					if c.Prog.Tasks[i].Deps[k].Kind == "task" && c.Prog.Tasks[i].Deps[k].Value == old {
						c.Prog.Tasks[i].Deps[k].Value = dst.Name
					}
				}
			}
		}
	}
	hasClean := false
	if (cfg.Prop == "C09" && r.Chance(1, 3)) || (cfg.Prop != "nowriters" && r.Chance(1, 12)) {
		// the last task (nothing depends on it) becomes the user's clean task
		c.Prog.Tasks[len(c.Prog.Tasks)-1].Name = "clean"
		hasClean = true
	}
	for _, f := range chFiles {
		if r.Chance(3, 5) {
			c.Disk[f] = Pick(r, chContents)
		}
	}
	// literal dependencies mostly exist
	for _, t := range c.Prog.Tasks {
		for _, d := range t.Deps {
			if d.Kind == "file" && r.Chance(9, 10) {
				if _, ok := c.Disk[d.Value]; !ok {
					c.Disk[d.Value] = Pick(r, chContents)
				}
			}
		}
	}
	for l := range c.Links {
		delete(c.Disk, l) // a link is not a file of its own: operations never write or delete it
	}
	names := make([]string, len(c.Prog.Tasks))
	for i, t := range c.Prog.Tasks {
		names[i] = t.Name
	}
	nops := r.Range(4, 14)
	if cfg.Tier == "thorough" && r.Chance(1, 4) {
		nops = r.Range(15, 28) // the thorough tier also explores longer histories
	}
	// the generator tracks the disk its own operations produce, so that biased
	// sub-histories ("macros") can name files that really are inputs of a task
	disk := map[string]string{}
	for k, v := range c.Disk {
		disk[k] = v
	}
	emit := func(op CHOp) {
		switch op.Op {
		case "write":
			disk[op.Path] = op.Content
		case "delete":
			delete(disk, op.Path)
		case "mvdir":
			if !isModelDir(disk, op.Content) {
				for _, k := range sortedKeys(disk) {
					if strings.HasPrefix(k, op.Path+"/") {
						disk[op.Content+"/"+strings.TrimPrefix(k, op.Path+"/")] = disk[k]
						delete(disk, k)
					}
				}
			}
		}
		c.Ops = append(c.Ops, op)
	}
	otherContent := func(old string) string {
		for {
			if n := Pick(r, chContents); n != old {
				return n
			}
		}
	}
	inputFiles := func(t TaskDef) []string {
		seen := map[string]bool{}
		var fs []string
		for _, d := range t.Deps {
			switch d.Kind {
			case "file":
				if _, ok := disk[d.Value]; ok && !seen[d.Value] {
					seen[d.Value] = true
					fs = append(fs, d.Value)
				}
			case "glob":
				for _, f := range RefGlob(disk, d.Value) {
					if !seen[f] {
						seen[f] = true
						fs = append(fs, f)
					}
				}
			}
		}
		sort.Strings(fs)
		return fs
	}
	macro := func() {
		t := Pick(r, c.Prog.Tasks)
		fs := inputFiles(t)
		if len(fs) == 0 {
			return
		}
		f := Pick(r, fs)
		old := disk[f]
		runT := CHOp{Op: "run", Tasks: []string{t.Name}, JSON: r.Chance(2, 3)}
		runAll := CHOp{Op: "run", Tasks: Shuffled(r, names), JSON: r.Chance(2, 3)}
		switch r.Intn(5) {
		case 0: // every input disappears, the task succeeds on the empty set (forced or not), the same inputs come back
			saved := map[string]string{}
			emit(runT)
			for _, x := range fs {
				saved[x] = disk[x]
				emit(CHOp{Op: "delete", Path: x})
			}
			mid := runT
			mid.Force = r.Chance(1, 2)
			emit(mid)
			for _, x := range fs {
				emit(CHOp{Op: "write", Path: x, Content: saved[x]})
			}
			emit(runT)
		case 1: // edit, multi-task run, revert
			emit(runAll)
			emit(CHOp{Op: "write", Path: f, Content: otherContent(old)})
			emit(runAll)
			emit(CHOp{Op: "write", Path: f, Content: old})
			emit(Pick(r, []CHOp{runT, runAll}))
		case 2: // success on X, failure on Y, back to X
			emit(runT)
			emit(CHOp{Op: "write", Path: f, Content: otherContent(old)})
			emit(CHOp{Op: "ctl", Task: t.Name, Cmd: r.Intn(t.NCmd), Exit: Pick(r, chExits)})
			emit(runT)
			emit(CHOp{Op: "ctl", Task: t.Name, Cmd: 0, Exit: 0})
			if t.NCmd > 1 {
				emit(CHOp{Op: "ctl", Task: t.Name, Cmd: 1, Exit: 0})
			}
			emit(CHOp{Op: "write", Path: f, Content: old})
			emit(runT)
		case 3: // forced success on edited inputs, back to the old ones
			emit(runT)
			emit(CHOp{Op: "write", Path: f, Content: otherContent(old)})
			forced := runT
			forced.Force = true
			emit(forced)
			emit(CHOp{Op: "write", Path: f, Content: old})
			emit(runT)
		default: // one input removed and re-created
			emit(runT)
			emit(CHOp{Op: "delete", Path: f})
			emit(Pick(r, []CHOp{runT, runAll}))
			emit(CHOp{Op: "write", Path: f, Content: old})
			emit(runT)
		}
	}
	macroAt := -1
	if r.Chance(1, 3) {
		macroAt = r.Intn(nops)
	}
	forceBias, failBias := 1, 1
	switch cfg.Prop {
	case "C14":
		forceBias = 4
	case "C09":
		failBias = 4
	}
	// swarm configuration: every case enables its own subset of the disruptive operation kinds, so
	// that many histories make long uninterrupted progress (a cache removed every few operations
	// keeps the system in permanent recovery and explores little)
	noRm, noCtl, noDelete := r.Chance(1, 2), r.Chance(1, 3), r.Chance(1, 3)
	if cfg.Prop == "C09" {
		noCtl = false
	}
	for len(c.Ops) < nops {
		if len(c.Ops) >= macroAt && macroAt >= 0 {
			macroAt = -1
			macro()
			continue
		}
		if len(c.Links) > 0 && r.Chance(1, 12) {
			l := firstKey(c.Links)
			var targets []string
			for _, t := range []string{"a.txt", "b.txt", "src/x.c", "src/n.h"} {
				rewritten := false
				for _, task := range c.Prog.Tasks {
					for _, fw := range task.Writes {
						if fw.Path == t {
							rewritten = true
						}
					}
				}
				if !rewritten {
					targets = append(targets, t)
				}
			}
			emit(CHOp{Op: "relink", Path: l, Content: Pick(r, targets)})
			continue
		}
		k := r.Intn(20)
		if (noRm && k >= 16+failBias && k < 19) || (noCtl && k >= 15 && k < 16+failBias) || (noDelete && k == 14) {
			k = r.Intn(14) // a run or a write instead
		}
		switch {
		case k < 9: // run
			op := CHOp{Op: "run", Tasks: Shuffled(r, Subset(r, names, 2, 3)), Cwd: Pick(r, chCwds)}
			if len(op.Tasks) == 0 {
				op.Tasks = []string{Pick(r, names)}
			}
			op.Force = r.Chance(forceBias, 8)
			if r.Chance(1, 30) {
				op.CacheRO = true
				op.Force = r.Chance(1, 2)
			}
			switch r.Intn(4) {
			case 0, 1:
				op.JSON = true
			case 2:
				op.Quiet = true
			}
			if hasClean && r.Chance(1, 3) {
				op.Tasks, op.ViaClean = []string{"clean"}, true
			}
			if r.Chance(1, 10) {
				op.Spokfile = Pick(r, []string{"abs", "rel", "home"})
			}
			c.Ops = append(c.Ops, op)
		case k < 14: // write (create / edit / revert, contents come from a pool of 3)
			emit(CHOp{Op: "write", Path: Pick(r, chFiles), Content: Pick(r, chContents)})
		case k < 15:
			if r.Chance(1, 6) {
				// a whole directory is renamed (and later renamed back by a second such operation)
				mv := Pick(r, [][2]string{{"src", "src_moved"}, {"src_moved", "src"}, {"src/sub", "src/sub2"}})
				emit(CHOp{Op: "mvdir", Path: mv[0], Content: mv[1]})
			} else {
				emit(CHOp{Op: "delete", Path: Pick(r, chFiles)})
			}
		case k < 16+failBias:
			t := Pick(r, c.Prog.Tasks)
			ex := 0
			if r.Chance(3, 4) {
				ex = Pick(r, chExits)
				if r.Chance(1, 4) {
					ex = r.Range(1, 255)
				}
			}
			c.Ops = append(c.Ops, CHOp{Op: "ctl", Task: t.Name, Cmd: r.Intn(t.NCmd), Exit: ex})
		case k < 19:
			if r.Chance(1, 3) {
				// debris next to the cache file: what an interrupted writer, an editor or a backup tool leaves
				c.Ops = append(c.Ops, CHOp{Op: "debris", Path: Pick(r, chDebris), What: Pick(r, []string{"copy", "copy", "garbage", "empty"})})
			} else {
				c.Ops = append(c.Ops, CHOp{Op: "rmcache", What: Pick(r, []string{"dir", "file"})})
			}
		default:
			// convergence tail: the same unforced run twice
			op := CHOp{Op: "run", Tasks: []string{Pick(r, names)}, JSON: true}
			c.Ops = append(c.Ops, op, op)
		}
	}
	return c
}

// ---------------------------------------------------------------- execution

// chDebris: names an interrupted or foreign writer may leave beside cache.json.
var chDebris = []string{"cache.json.tmp", "cache.json~", "cache.json.bak", ".cache.json.swp", "cache.json.new", "cache.tmp", "cache.json.lock", "lock", ".lock", "spok.lock"}

type jsonResult struct {
	Task    string `json:"task"`
	Results []struct {
		Cmd    string `json:"cmd"`
		Stdout string `json:"stdout"`
		Stderr string `json:"stderr"`
		Status int    `json:"status"`
	} `json:"results"`
	Skipped bool `json:"skipped"`
}

// projState is the model + disk bookkeeping shared by the L2 scenarios.
type projState struct {
	w        *World
	prog     *Program
	disk     map[string]string  // model copy of the project files it wrote
	ctl      map[string]int     // "T_i" -> exit status (0 = ok)
	last     map[string]*string // T -> canonical inputs of its last success
	lastFail map[string]bool    // T -> its most recent execution failed
	// cacheGone: the cache was removed since T's last success. A skip is still *permitted* when the inputs equal
	// those of the last success (the property does not say where spok keeps its record), but no longer *required*
	cacheGone  map[string]bool
	logLen     int
	inv        int
	links      map[string]string // dependency files that are symbolic links: path -> target path (project relative)
	fixedMtime bool
	via        bool // invocations address the project as $HOME/via/proj
	nofile     int  // level L3: RLIMIT_NOFILE of every invocation
}

// addr is the path under which invocations address the project.
func (s *projState) addr() string {
	if s.via {
		return filepath.Join(s.w.Home, "via", filepath.Base(s.w.Proj))
	}
	return s.w.Proj
}

// withLinks adds the symbolic links to a model disk: a link has the content of its target and does
// not exist (dangling) while the target does not.
func (s *projState) withLinks(disk map[string]string) map[string]string {
	if len(s.links) == 0 {
		return disk
	}
	out := make(map[string]string, len(disk)+len(s.links))
	for k, v := range disk {
		out[k] = v
	}
	for l, t := range s.links {
		if c, ok := disk[t]; ok {
			out[l] = c
		} else {
			delete(out, l)
		}
	}
	return out
}

// fixedMtimeNext makes the next newProjState create its files with the fixed modification time.
var fixedMtimeNext bool

func newProjState(w *World, p *Program, disk map[string]string) *projState {
	s := &projState{w: w, prog: p, disk: map[string]string{}, ctl: map[string]int{}, last: map[string]*string{}, lastFail: map[string]bool{}, cacheGone: map[string]bool{}, fixedMtime: fixedMtimeNext}
	fixedMtimeNext = false
	must(os.MkdirAll(filepath.Join(w.Proj, "src", "sub"), 0o755))
	writeFile(filepath.Join(w.Proj, "spokfile"), p.Render())
	for _, rel := range sortedKeys(disk) {
		s.write(rel, disk[rel])
	}
	for _, t := range p.Tasks {
		for i := 0; i < t.NCmd; i++ {
			s.setCtl(t.Name, i, 0)
		}
	}
	return s
}

// oldLink gives a symbolic link itself (not its target) the fixed modification time.
func oldLink(full string) {
	ts := []unix.Timespec{unix.NsecToTimespec(hsEpoch.UnixNano()), unix.NsecToTimespec(hsEpoch.UnixNano())}
	must(unix.UtimesNanoAt(unix.AT_FDCWD, full, ts, unix.AT_SYMLINK_NOFOLLOW))
}

func (s *projState) write(rel, content string) {
	s.disk[rel] = content
	full := filepath.Join(s.w.Proj, filepath.FromSlash(rel))
	writeFile(full, content)
	if s.fixedMtime {
		must(os.Chtimes(full, hsEpoch, hsEpoch))
	}
}

func (s *projState) delete(rel string) {
	delete(s.disk, rel)
	os.Remove(filepath.Join(s.w.Proj, filepath.FromSlash(rel)))
}

func (s *projState) setCtl(task string, i, exit int) {
	key := fmt.Sprintf("%s_%d", task, i)
	s.ctl[key] = exit
	body := "true\n"
	if exit != 0 {
		body = fmt.Sprintf("exit %d\n", exit)
	}
	if exit == 1 && s.prog.Seq {
		// returns 1 without leaving the shell: only errexit (`set -e`) turns it into a failing command
		body = "false\n"
	}
	writeFile(filepath.Join(s.w.Ctl, key), body)
}

func (s *projState) rmCache(what string) {
	if what == "file" {
		os.Remove(filepath.Join(s.w.Proj, ".spok", "cache.json"))
	} else {
		os.RemoveAll(filepath.Join(s.w.Proj, ".spok"))
	}
	for k := range s.last {
		if s.last[k] != nil {
			s.cacheGone[k] = true
		}
	}
}

// logDelta returns the markers appended to the side-effect log since the last call.
func (s *projState) logDelta() []string {
	all := strings.Fields(readFileOr(s.w.Log, ""))
	d := all[min(s.logLen, len(all)):]
	s.logLen = len(all)
	return d
}

// diskAt returns the model disk as task n sees it when spok checks it during an
// invocation: the disk before the invocation plus the files written by those of
// its (transitive) task dependencies that ran in this invocation. (Readers of a
// written file always depend on the writer, see addWriter.)
func (s *projState) diskAt(n string, v runView) map[string]string {
	deps, _ := s.prog.Closure([]string{n})
	var ws []FileWrite
	for _, d := range deps {
		if d == n || len(v.markers[d]) == 0 {
			continue
		}
		ws = append(ws, s.prog.Task(d).Writes...)
	}
	if len(ws) == 0 {
		return s.withLinks(s.disk)
	}
	out := make(map[string]string, len(s.disk)+len(ws))
	for k, val := range s.disk {
		out[k] = val
	}
	for _, fw := range ws {
		out[fw.Path] = fw.Disk()
	}
	return s.withLinks(out)
}

type runView struct {
	markers  map[string][]int // task -> command indices seen, in order
	order    []string         // tasks in order of first marker
	complete map[string]bool  // task -> all its commands ran exactly once and none was set to fail
	failing  map[string]bool  // task -> a command set to fail was executed
	dupes    bool
}

func (s *projState) view(delta []string) runView {
	v := runView{markers: map[string][]int{}, complete: map[string]bool{}, failing: map[string]bool{}}
	for _, m := range delta {
		dot := strings.LastIndexByte(m, '.')
		if dot < 0 {
			continue
		}
		t := m[:dot]
		var i int
		fmt.Sscanf(m[dot+1:], "%d", &i)
		if _, ok := v.markers[t]; !ok {
			v.order = append(v.order, t)
		}
		v.markers[t] = append(v.markers[t], i)
	}
	for t, ms := range v.markers {
		td := s.prog.Task(t)
		if td == nil {
			continue
		}
		ok := len(ms) == td.NCmd
		seen := map[int]bool{}
		for _, i := range ms {
			if seen[i] {
				v.dupes = true
			}
			seen[i] = true
			if s.ctl[fmt.Sprintf("%s_%d", t, i)] != 0 {
				v.failing[t] = true
				ok = false
			}
		}
		v.complete[t] = ok && len(seen) == td.NCmd
	}
	return v
}

func runArgs(op CHOp) []string {
	args := append([]string{}, op.Tasks...)
	if op.ViaClean {
		args = []string{"--clean"}
	}
	if op.Force {
		args = append(args, "--force")
	}
	if op.JSON {
		args = append(args, "--json")
	}
	if op.Quiet {
		args = append(args, "--quiet")
	}
	return args
}

func (s *projState) stateClass(t *TaskDef) string {
	in, n, missing := Inputs(s.prog, t, s.withLinks(s.disk))
	rel := "never"
	if l := s.last[t.Name]; l != nil {
		if *l == in {
			rel = "same"
		} else {
			rel = "other"
		}
	}
	fail := ""
	for i := 0; i < t.NCmd; i++ {
		if s.ctl[fmt.Sprintf("%s_%d", t.Name, i)] != 0 {
			fail = "F"
		}
	}
	return fmt.Sprintf("%s/%d/%d%s", rel, min(n, 2), len(missing), fail)
}

// writersWellFormed: every task that reads (literally or through a glob) a file
// another task writes must depend on the writer, otherwise the order in which spok
// checks the reader relative to the write is not determined by the spokfile.
func writersWellFormed(p *Program) bool {
	for _, wt := range p.Tasks {
		for _, fw := range wt.Writes {
			for _, rt := range p.Tasks {
				if rt.Name == wt.Name {
					continue
				}
				reads := false
				for _, d := range rt.Deps {
					if (d.Kind == "file" && d.Value == fw.Path) || (d.Kind == "glob" && GlobMatch(d.Value, fw.Path)) {
						reads = true
					}
				}
				if !reads {
					continue
				}
				cl, _ := p.Closure([]string{rt.Name})
				dep := false
				for _, n := range cl {
					if n == wt.Name {
						dep = true
					}
				}
				if !dep {
					return false
				}
			}
		}
	}
	return true
}

func (cachehist) Exec(w *World, cc any, prop string) *Result {
	c := cc.(*CHCase)
	res := newResult()
	if !writersWellFormed(&c.Prog) {
		res.count("skipped_ill_formed_case")
		return res
	}
	written := map[string]bool{}
	for _, t := range c.Prog.Tasks {
		for _, fw := range t.Writes {
			written[fw.Path] = true
		}
	}
	for _, target := range c.Links {
		if written[target] {
			res.count("skipped_ill_formed_case") // a link onto a file some task rewrites: the reader's order relative to the writer is undetermined
			return res
		}
	}
	for _, op := range c.Ops {
		if op.Op == "relink" && written[op.Content] {
			res.count("skipped_ill_formed_case")
			return res
		}
		if _, isLink := c.Links[op.Path]; isLink && (op.Op == "write" || op.Op == "delete") {
			res.count("skipped_ill_formed_case") // operations address the target of a link, never the link itself
			return res
		}
	}
	if _, both := c.Disk[firstKey(c.Links)]; both && len(c.Links) > 0 {
		res.count("skipped_ill_formed_case")
		return res
	}
	fixedMtimeNext = c.FixedMtime
	s := newProjState(w, &c.Prog, c.Disk)
	if c.FixedMtime {
		res.count("fault_present:fixed_modification_times")
	}
	for i := 0; i < c.Wide; i++ {
		s.write(fmt.Sprintf("big/f%04d.c", i), "1")
	}
	if c.Wide > 0 {
		res.count("probe:task_with_hundreds_of_dependency_files")
	}
	s.nofile = c.Nofile
	if c.AllFail {
		t := c.Prog.Tasks[0]
		for i := 0; i < t.NCmd; i++ {
			s.setCtl(t.Name, i, 1)
		}
		res.count("probe:task_with_hundreds_of_failing_commands")
	}
	if c.Via {
		must(os.Symlink(".", filepath.Join(w.Home, "via")))
		s.via = true
		res.count("fault_present:project_reached_through_symlinked_path")
	}
	for _, l := range sortedKeys(c.Links) {
		full := filepath.Join(w.Proj, filepath.FromSlash(l))
		target, err := filepath.Rel(filepath.Dir(full), filepath.Join(w.Proj, filepath.FromSlash(c.Links[l])))
		must(err)
		must(os.MkdirAll(filepath.Dir(full), 0o755))
		os.Remove(full)
		must(os.Symlink(target, full))
		if c.FixedMtime {
			oldLink(full)
		}
		if s.links == nil {
			s.links = map[string]string{}
		}
		s.links[l] = c.Links[l]
		res.count("fault_present:dependency_is_a_symlink")
	}
	s.logDelta()
	var kinds []string
	for _, op := range c.Ops {
		kinds = append(kinds, op.Op)
	}
	sig := strings.Join(kinds, ";")

	for oi, op := range c.Ops {
		res.Ops++
		if op.Op == "run" {
			if stop := s.judgeRun(res, c.Sched, c.hadForceBefore(oi), fmt.Sprintf("op%d", oi), op, prop, sig); stop {
				return res
			}
			continue
		}
		s.applyOp(res, fmt.Sprintf("op%d", oi), op)
	}
	return res
}

// applyOp performs a non-run operation on the disk and the model.
func (s *projState) applyOp(res *Result, oi string, op CHOp) {
	switch op.Op {
	case "write":
		s.write(op.Path, op.Content)
		res.event("%s write %s=%s", oi, op.Path, op.Content)
	case "delete":
		s.delete(op.Path)
		res.event("%s delete %s", oi, op.Path)
	case "ctl":
		if td := s.prog.Task(op.Task); td != nil && op.Cmd < td.NCmd {
			s.setCtl(op.Task, op.Cmd, op.Exit)
			if op.Exit != 0 {
				res.count(fmt.Sprintf("fault_present:command_exit_status_%s", exitClass(op.Exit)))
			}
		}
		res.event("%s ctl %s_%d=%d", oi, op.Task, op.Cmd, op.Exit)
	case "relink":
		// re-point a dependency link at another file (op.Path -> op.Content, both project relative)
		if _, ok := s.links[op.Path]; ok {
			full := filepath.Join(s.w.Proj, filepath.FromSlash(op.Path))
			target, err := filepath.Rel(filepath.Dir(full), filepath.Join(s.w.Proj, filepath.FromSlash(op.Content)))
			must(err)
			os.Remove(full)
			must(os.Symlink(target, full))
			if s.fixedMtime {
				oldLink(full)
			}
			s.links[op.Path] = op.Content
			res.count("fault_fired:dependency_link_repointed")
		}
		res.event("%s relink %s -> %s", oi, op.Path, op.Content)
	case "mvdir":
		// rename a directory with everything in it, unless the destination exists or a link / written file lives there
		from, to := filepath.Join(s.w.Proj, filepath.FromSlash(op.Path)), filepath.Join(s.w.Proj, filepath.FromSlash(op.Content))
		blocked := false
		for l, t := range s.links {
			if strings.HasPrefix(l, op.Path+"/") || strings.HasPrefix(t, op.Path+"/") {
				blocked = true
			}
		}
		for _, t := range s.prog.Tasks {
			for _, fw := range t.Writes {
				if strings.HasPrefix(fw.Path, op.Path+"/") {
					blocked = true
				}
			}
		}
		if st, err := os.Stat(from); err == nil && st.IsDir() && !blocked {
			if _, err := os.Lstat(to); err != nil {
				must(os.Rename(from, to))
				for _, k := range sortedKeys(s.disk) {
					if strings.HasPrefix(k, op.Path+"/") {
						s.disk[op.Content+"/"+strings.TrimPrefix(k, op.Path+"/")] = s.disk[k]
						delete(s.disk, k)
					}
				}
				res.count("probe:directory_renamed_with_its_files")
			}
		}
		res.event("%s mvdir %s -> %s", oi, op.Path, op.Content)
	case "debris":
		// a stray sibling of the cache file; the cache file itself is untouched, so nothing changes for the model
		dir := filepath.Join(s.w.Proj, ".spok")
		if st, err := os.Stat(dir); err == nil && st.IsDir() {
			content := ""
			switch op.What {
			case "copy":
				content = readFileOr(filepath.Join(dir, "cache.json"), "{}")
			case "garbage":
				content = "\x00\x00{\"half\": "
			}
			writeFile(filepath.Join(dir, op.Path), content)
			res.count("fault_fired:stray_file_next_to_cache_" + op.What)
		}
		res.event("%s debris %s %s", oi, op.Path, op.What)
	case "rmcache":
		s.rmCache(op.What)
		res.count("fault_fired:cache_removed_" + op.What)
		res.event("%s rmcache %s", oi, op.What)
	}
}

func exitClass(n int) string {
	switch n {
	case 1, 2, 127, 128, 255:
		return fmt.Sprint(n)
	}
	return "other"
}

// judgeRun performs one run operation and evaluates the predicates of prop.
func (s *projState) judgeRun(res *Result, sched Sched, forceBefore bool, oi string, op CHOp, prop, sig string) (stop bool) {
	w := s.w
	closure, ok := s.prog.Closure(op.Tasks)
	if !ok || len(op.Tasks) == 0 {
		res.event("%s run skipped (undefined task in request)", oi)
		return false
	}
	cwd := filepath.Join(s.addr(), filepath.FromSlash(op.Cwd))
	if st, err := os.Stat(cwd); err != nil || !st.IsDir() {
		cwd = s.addr()
	}
	args := runArgs(op)
	switch op.Spokfile {
	case "abs":
		args = append(args, "--spokfile", filepath.Join(s.addr(), "spokfile"))
	case "rel":
		relp, err := filepath.Rel(cwd, filepath.Join(s.addr(), "spokfile"))
		must(err)
		args = append(args, "--spokfile", relp)
	case "home":
		cwd = w.Home
		args = append(args, "--spokfile", filepath.Join("proj", "spokfile"))
		if s.via {
			args[len(args)-1] = filepath.Join("via", "proj", "spokfile")
		}
	}
	env := w.BaseEnv()
	if s.via {
		env["PWD"] = cwd
	}
	if op.Spokfile != "" {
		res.count("probe:run_with_spokfile_flag")
	}
	// state classes before the run (coverage measure)
	var classes []string
	for _, n := range closure {
		classes = append(classes, s.stateClass(s.prog.Task(n)))
	}
	faults := NoFaults()
	if s.nofile > 0 && w.Level == "L3" {
		faults.NofileLimit = s.nofile
		res.count("fault_fired:low_open_file_limit")
	}
	cacheRO := op.CacheRO && w.Level != "L3"
	if cacheRO {
		faults.WriteErrAll = "EACCES"
		res.count("fault_present:cache_not_writable")
	}
	obs := w.Invoke(Invocation{Args: args, Cwd: cwd, Env: env, Inv: s.inv, Sched: sched, Faults: faults})
	s.inv++
	res.Steps += len(obs.Trace)
	delta := s.logDelta()
	v := s.view(delta)
	for _, fd := range obs.Fired {
		res.count("fault_fired:" + strings.SplitN(fd, ":", 2)[0])
	}
	res.event("%s run %v force=%v json=%v quiet=%v cwd=%q failed=%v log=%v perms=%v sched=%s", oi, op.Tasks, op.Force, op.JSON, op.Quiet, op.Cwd, obs.Failed, delta, obs.Perms, traceHash(obs.Trace))

	if obs.Out.Panic != "" || obs.Out.Deadlock || obs.Out.Livelock || obs.HashLeak {
		res.Abandoned = fmt.Sprintf("C18: invocation %s ended abnormally (%s): %s", oi, outcomeStr(obs.Out), short(obs.Out.Panic, 200))
		return true
	}
	if v.dupes {
		// running a command twice is C03's business, but whatever was run: a command that exited non-zero
		// must have failed the invocation
		if prop == "C09" && len(v.failing) > 0 && !obs.Failed {
			var fr []string
			for t := range v.failing {
				fr = append(fr, t)
			}
			sort.Strings(fr)
			res.violate("C09", "failing-command-fails-invocation", "run:dupes", "%s: a command of task(s) %v exited non-zero (and was run more than once: %v) but the invocation succeeded", oi, fr, delta)
		}
		res.Abandoned = fmt.Sprintf("C03: a command ran twice in %s: %v", oi, delta)
		return true
	}

	// what spok reported
	reported := map[string]bool{} // task -> skipped flag, only where spok reported one
	if !obs.Failed {
		if op.JSON {
			var jr []jsonResult
			if err := json.Unmarshal([]byte(obs.Stdout), &jr); err != nil {
				res.Abandoned = fmt.Sprintf("C20: --json output of %s is not one JSON document: %v", oi, err)
				return true
			}
			for _, r := range jr {
				reported[r.Task] = r.Skipped
				if td := s.prog.Task(r.Task); td != nil && td.NCmd > 0 && r.Skipped == (len(v.markers[r.Task]) > 0) {
					res.Abandoned = fmt.Sprintf("C20: %s reports task %s skipped=%v but its commands ran=%v", oi, r.Task, r.Skipped, len(v.markers[r.Task]) > 0)
					return true
				}
			}
			for _, n := range closure {
				if _, ok := reported[n]; !ok {
					res.Abandoned = fmt.Sprintf("C03: %s: task %s is in the requested closure but missing from the --json report", oi, n)
					return true
				}
			}
		} else if !op.Quiet {
			// plain output: message wording is never parsed; a closure task whose name
			// appears on stdout and that left no marker in the log was reported skipped
			for _, n := range closure {
				ran := len(v.markers[n]) > 0
				if !strings.Contains(obs.Stdout, n) {
					if !ran {
						res.Abandoned = fmt.Sprintf("C03: %s: task %s is in the requested closure but was neither executed nor mentioned", oi, n)
						return true
					}
					continue
				}
				reported[n] = !ran
			}
		}
	}

	anyMissing := false
	var outcome []string
	for _, n := range closure {
		t := s.prog.Task(n)
		in, nfiles, missing := Inputs(s.prog, t, s.diskAt(n, v))
		// a dangling symbolic link that one of the task's globs matches is listed by the expansion
		// and cannot be opened: spok must fail on it just as on a missing literal dependency
		for l, target := range s.links {
			if _, ok := s.diskAt(n, v)[target]; ok {
				continue
			}
			for _, d := range t.Deps {
				if d.Kind == "glob" && !strings.HasPrefix(l, ".") && GlobMatch(d.Value, l) {
					missing = append(missing, l)
				}
			}
		}
		if len(missing) > 0 {
			anyMissing = true
		}
		ran := len(v.markers[n]) > 0
		legal := s.last[n] != nil && *s.last[n] == in && len(missing) == 0
		skipFlag, isReported := reported[n]
		outcome = append(outcome, fmt.Sprintf("%v%v", ran, skipFlag))
		lastDesc := "never succeeded"
		if s.last[n] != nil {
			lastDesc = "{" + *s.last[n] + "}"
		}

		// ---- safety: a reported skip must be legal (C01; the force and failure flavours are C14 / C09)
		if isReported && skipFlag && !legal {
			msg := fmt.Sprintf("%s: task %s reported skipped; current inputs {%s} != inputs of its last success %s", oi, n, in, lastDesc)
			switch {
			case prop == "C09" && s.lastFail[n]:
				res.violate("C09", "failed-task-not-up-to-date", sig, "%s (its most recent execution failed)", msg)
			case prop == "C14" && forceBefore:
				res.violate("C14", "force-does-not-damage-cache", sig, "%s (a forced run precedes)", msg)
			case prop == "C01":
				res.violate("C01", "skip-implies-inputs-equal-last-success", sig, "%s", msg)
			case prop == "C10":
				res.violate("C10", "no-wrong-skip-after-kill", sig, "%s", msg)
			}
			if prop == "C01" || prop == "C09" || prop == "C14" {
				res.count("abandon_candidate:illegal_skip")
			}
		}
		if isReported && skipFlag && legal {
			res.count("probe:legal_skip")
			if s.cacheGone[n] {
				res.count("accept_either:skip_on_unchanged_inputs_after_cache_removal")
			}
		}

		// ---- C14: force runs everything
		if op.Force && !obs.Failed && prop == "C14" {
			if !ran && t.NCmd > 0 {
				res.violate("C14", "force-runs-every-task", sig, "%s: --force given but task %s executed no command", oi, n)
			} else if isReported && skipFlag {
				res.violate("C14", "force-runs-every-task", sig, "%s: --force given but task %s reported skipped", oi, n)
			}
		}

		// ---- C02: liveness direction
		if prop == "C02" {
			mandatory := legal && !s.cacheGone[n] && !op.Force && nfiles >= 1
			if mandatory && ran {
				res.violate("C02", "unchanged-inputs-implies-skip", sig, "%s: task %s last succeeded on exactly the current inputs {%s}, no --force, cache not removed — yet its commands ran again", oi, n, in)
			}
			if mandatory && !ran {
				res.count("probe:mandatory_skip_observed")
			}
			if !t.HasFileDeps() && !obs.Failed && !ran {
				res.violate("C02", "no-file-deps-always-run", sig, "%s: task %s has no file dependency but executed no command", oi, n)
			}
			if legal && !op.Force && nfiles == 0 && t.HasFileDeps() {
				res.count("accept_either:file_deps_match_no_regular_file")
			}
		}
	}

	// ---- C09: a failing command fails the invocation and is named
	var failingRan []string
	for t := range v.failing {
		failingRan = append(failingRan, t)
	}
	sort.Strings(failingRan)
	if len(failingRan) > 0 {
		res.count("fault_fired:command_failed")
		if prop == "C09" {
			if !obs.Failed {
				res.violate("C09", "failing-command-fails-invocation", sig, "%s: a command of task(s) %v exited non-zero but the invocation succeeded (flags force=%v json=%v quiet=%v)", oi, failingRan, op.Force, op.JSON, op.Quiet)
			} else {
				named := false
				for _, t := range failingRan {
					if strings.Contains(obs.ErrText, t) {
						named = true
					}
				}
				if !named && cacheRO && len(obs.Fired) > 0 {
					// two causes of failure again: a failing command and a cache that cannot be written
					res.count("accept_either:failing_command_and_unwritable_cache")
				} else if !named && anyMissing {
					// two causes of failure in one invocation (a failing command and a missing
					// literal dependency): which one the error reports is not specified
					res.count("accept_either:failing_command_and_missing_dependency")
				} else if !named {
					res.violate("C09", "error-names-failing-task", sig, "%s: the error %q names none of the failing tasks %v", oi, short(obs.ErrText, 200), failingRan)
				}
			}
		}
	} else if obs.Failed && !anyMissing && prop == "C10" {
		if lt := strings.ToLower(obs.ErrText); strings.Contains(lt, "cache") || strings.Contains(lt, ".spok") {
			res.count("probe:explicit_cache_error_after_kill")
		} else {
			res.violate("C10", "failure-after-kill-is-about-the-cache", sig, "%s failed after a kill, no command fails and every dependency exists, yet the error does not mention the cache: %s", oi, short(obs.ErrText, 300))
		}
	} else if obs.Failed && !anyMissing && cacheRO && len(obs.Fired) > 0 {
		// the cache could not be written: an explicit error is the right answer
		if lt := strings.ToLower(obs.ErrText); strings.Contains(lt, "cache") || strings.Contains(lt, ".spok") {
			res.count("probe:run_stopped_on_unwritable_cache")
		} else {
			res.Abandoned = fmt.Sprintf("%s failed with an unwritable cache but the error does not mention it: %s", oi, short(obs.ErrText, 200))
			return true
		}
	} else if obs.Failed && !anyMissing {
		res.Abandoned = fmt.Sprintf("%s failed although no command was set to fail and every literal dependency exists: %s", oi, short(obs.ErrText, 200))
		return true
	}
	if anyMissing {
		res.count("fault_present:missing_literal_dependency")
		// C18 at system level: a dependency that cannot be opened (missing literal file, dangling link listed by a
		// glob) makes spok stop with an error; it never computes a digest without it and carries on
		if prop == "C18" {
			res.count("probe:unreadable_dependency_in_closure")
			if !obs.Failed {
				res.violate("C18", "unreadable-dependency-stops-spok", sig, "%s: a dependency of a task in the closure cannot be opened (missing file or dangling link), yet the invocation succeeded (ran %v)", oi, delta)
			} else if strings.TrimSpace(obs.ErrText) == "" {
				res.violate("C18", "unreadable-dependency-stops-spok", sig, "%s: the invocation failed without a message", oi)
			}
		}
	}

	// ---- coverage and probes
	res.distinct(fmt.Sprintf("%v|f%v j%v q%v|%v|fail%v", classes, op.Force, op.JSON, op.Quiet, outcome, obs.Failed))
	nran, nskip := 0, 0
	for _, n := range closure {
		if len(v.markers[n]) > 0 {
			nran++
		} else {
			nskip++
		}
	}
	if nran > 0 && nskip > 0 && !obs.Failed {
		res.count("probe:mixed_skipped_and_executed")
	}
	if op.Force {
		res.count("probe:forced_run")
	}

	// ---- model update from the ground truth
	for _, n := range closure {
		if len(v.markers[n]) == 0 {
			continue
		}
		t := s.prog.Task(n)
		in, _, _ := Inputs(s.prog, t, s.diskAt(n, v))
		if v.complete[n] {
			if s.last[n] != nil && *s.last[n] != in && op.Force {
				res.count("probe:forced_success_on_edited_inputs")
			}
			cp := in
			s.last[n] = &cp
			s.lastFail[n] = false
			s.cacheGone[n] = cacheRO && len(obs.Fired) > 0 // the success could not be recorded: a later skip is not required
		} else {
			s.lastFail[n] = true
		}
	}
	// files written by the tasks that ran are on the disk now
	for _, n := range v.order {
		if t := s.prog.Task(n); t != nil {
			for _, fw := range t.Writes {
				s.disk[fw.Path] = fw.Disk()
				res.count("probe:task_rewrote_an_input_file")
			}
		}
	}
	return false
}

func (c *CHCase) hadForceBefore(oi int) bool {
	for i := 0; i < oi && i < len(c.Ops); i++ {
		if c.Ops[i].Op == "run" && c.Ops[i].Force {
			return true
		}
	}
	return false
}

// ---------------------------------------------------------------- shrinking

func (cachehist) Shrinks(cc any) []any {
	c := cc.(*CHCase)
	var out []any
	add := func(f func(n *CHCase)) {
		n := cloneJSON(*c)
		f(&n)
		out = append(out, &n)
	}
	// drop halves, then single operations
	if len(c.Ops) > 3 {
		h := len(c.Ops) / 2
		add(func(n *CHCase) { n.Ops = n.Ops[h:] })
		add(func(n *CHCase) { n.Ops = n.Ops[:h] })
	}
	for i := range c.Ops {
		add(func(n *CHCase) { n.Ops = append(n.Ops[:i:i], n.Ops[i+1:]...) })
	}
	// drop a task and every reference to it
	if len(c.Prog.Tasks) > 1 {
		for i := range c.Prog.Tasks {
			name := c.Prog.Tasks[i].Name
			add(func(n *CHCase) { dropTask(n, name) })
		}
	}
	// drop dependencies, commands
	for ti, t := range c.Prog.Tasks {
		for di := range t.Deps {
			add(func(n *CHCase) {
				d := n.Prog.Tasks[ti].Deps
				n.Prog.Tasks[ti].Deps = append(d[:di:di], d[di+1:]...)
			})
		}
		if t.NCmd > 1 {
			add(func(n *CHCase) {
				n.Prog.Tasks[ti].NCmd = 1
				for oi := range n.Ops {
					if n.Ops[oi].Op == "ctl" && n.Ops[oi].Task == t.Name {
						n.Ops[oi].Cmd = 0
					}
				}
			})
		}
		if t.Doc != "" {
			add(func(n *CHCase) { n.Prog.Tasks[ti].Doc = "" })
		}
		if len(t.Writes) > 0 {
			add(func(n *CHCase) { n.Prog.Tasks[ti].Writes = nil })
		}
	}
	// fewer requested tasks, simpler flags, root cwd
	for oi, op := range c.Ops {
		if op.Op != "run" {
			continue
		}
		if len(op.Tasks) > 1 {
			for k := range op.Tasks {
				add(func(n *CHCase) { n.Ops[oi].Tasks = append(n.Ops[oi].Tasks[:k:k], n.Ops[oi].Tasks[k+1:]...) })
			}
		}
		if op.Cwd != "" {
			add(func(n *CHCase) { n.Ops[oi].Cwd = "" })
		}
		if op.Quiet {
			add(func(n *CHCase) { n.Ops[oi].Quiet = false })
		}
		if !op.JSON {
			add(func(n *CHCase) { n.Ops[oi].JSON = true; n.Ops[oi].Quiet = false })
		}
		if op.Force {
			add(func(n *CHCase) { n.Ops[oi].Force = false })
		}
		if op.ViaClean {
			add(func(n *CHCase) { n.Ops[oi].ViaClean = false })
		}
		if op.Spokfile != "" {
			add(func(n *CHCase) { n.Ops[oi].Spokfile = "" })
		}
	}
	// drop initial files
	for _, f := range sortedKeys(c.Disk) {
		add(func(n *CHCase) { delete(n.Disk, f) })
	}
	if c.Sched.Policy != "fifo" {
		add(func(n *CHCase) { n.Sched = Sched{Policy: "fifo"} })
	}
	if c.Prog.Layout != 0 {
		add(func(n *CHCase) { n.Prog.Layout = 0 })
	}
	if len(c.Links) > 0 {
		add(func(n *CHCase) { n.Links = nil })
	}
	if c.FixedMtime {
		add(func(n *CHCase) { n.FixedMtime = false })
	}
	return out
}

func dropTask(n *CHCase, name string) {
	var ts []TaskDef
	for _, t := range n.Prog.Tasks {
		if t.Name == name {
			continue
		}
		var ds []Dep
		for _, d := range t.Deps {
			if !(d.Kind == "task" && d.Value == name) {
				ds = append(ds, d)
			}
		}
		t.Deps = ds
		ts = append(ts, t)
	}
	n.Prog.Tasks = ts
	var ops []CHOp
	for _, op := range n.Ops {
		switch op.Op {
		case "run":
			var tl []string
			for _, t := range op.Tasks {
				if t != name {
					tl = append(tl, t)
				}
			}
			if len(tl) == 0 {
				continue
			}
			op.Tasks = tl
		case "ctl":
			if op.Task == name {
				continue
			}
		}
		ops = append(ops, op)
	}
	n.Ops = ops
}

func firstKey(m map[string]string) string {
	for _, k := range sortedKeys(m) {
		return k
	}
	return ""
}
