// Package queue implements a FIFO queue generic over any type.
//
// The queue is not safe for concurrent access across goroutines, the caller is responsible for
// synchronising concurrent access.
package queue

import (
	"errors"
	"fmt"
	"iter"
)

// Queue is a FIFO queue generic over any type.
//
// A Queue should be instantiated by the New function and not directly.
type Queue[T any] struct {
	container []T // Underlying slice
}

// New constructs and returns a new Queue.
func New[T any]() *Queue[T] {
	return &Queue[T]{}
}

// From builds a [Queue] from an existing slice of items, pushing items
// into the queue in the order of the slice.
//
// The queue will be preallocated the size of len(items).
func From[T any](items []T) *Queue[T] {
	queue := &Queue[T]{container: make([]T, 0, len(items))}
	for _, item := range items {
		queue.Push(item)
	}

	return queue
}

// Collect builds a [Queue] from an iterator of items, pushing items
// into the queue in the order of iteration.
func Collect[T any](items iter.Seq[T]) *Queue[T] {
	queue := New[T]()
	for item := range items {
		queue.Push(item)
	}

	return queue
}

// Push adds an item to the back of the queue.
//
//	q := queue.New[string]()
//	q.Push("hello")
func (q *Queue[T]) Push(item T) {
	q.container = append(q.container, item)
}

// Pop removes an item from the front of the queue, if the queue
// is empty, an error will be returned.
//
//	q := queue.New[string]()
//	q.Push("hello")
//	q.Push("there")
//	item, _ := q.Pop()
//	fmt.Println(item) // "hello"
func (q *Queue[T]) Pop() (T, error) {
	l := len(q.container)
	if l == 0 {
		var none T
		return none, errors.New("pop from empty queue")
	}
	item := (q.container)[0]
	q.container = (q.container)[1:]

	return item, nil
}

// Size returns the number of items in the queue.
//
//	s := queue.New[string]()
//	s.Size() // 0
//	s.Push("hello")
//	s.Push("there")
//	s.Size() // 2
func (q *Queue[T]) Size() int {
	return len(q.container)
}

// Empty returns whether or not the queue is empty.
//
//	s := queue.New[string]()
//	s.Empty() // true
//	s.Push("hello")
//	s.Empty() // false
func (q *Queue[T]) Empty() bool {
	return len(q.container) == 0
}

// Items returns the an iterator over the queue in FIFO order.
//
//	q := queue.New[string]()
//	q.Push("hello")
//	q.Push("there")
//	qlices.Collect(s.Items()) // [hello there]
func (q *Queue[T]) Items() iter.Seq[T] {
	return func(yield func(T) bool) {
		for _, item := range q.container {
			if !yield(item) {
				return
			}
		}
	}
}

// String satisfies the [fmt.Stringer] interface and allows a Queue to be printed.
func (q *Queue[T]) String() string {
	return fmt.Sprintf("%v", q.container)
}
