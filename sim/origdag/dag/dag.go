package dag

import (
	"fmt"

	"verifsim/origdag/queue"
	"verifsim/origdag/set"
)

// vertex is a single node in the graph, and holds the underlying data
// we want to represent in the graph.
type vertex[T any] struct {
	parents  *set.Set[*vertex[T]] // The direct parents of this vertex
	children *set.Set[*vertex[T]] // The direct children of this vertex
	item     T                    // The actual data
}

// newVertex creates and returns a new vertex containing item.
func newVertex[T any](item T) *vertex[T] {
	return &vertex[T]{
		parents:  set.New[*vertex[T]](),
		children: set.New[*vertex[T]](),
		item:     item,
	}
}

// inDegree returns the number of inbound edges to the vertex.
func (v vertex[T]) inDegree() int {
	return v.parents.Size()
}

// Graph is a generic directed acyclic graph, generic over 'K' which is a comparable
// type to be used as the unique ID for each vertex and 'T' which is the data
// you wish to store in each vertex of the graph.
//
// The ID must be unique within a [Graph].
type Graph[K comparable, T any] struct {
	vertices map[K]*vertex[T] // The map of id -> vertex
	edges    int              // The current number of edges in the graph
}

// New creates and returns a new [Graph].
//
// It is generic over 'K' which is a comparable type to be used as the unique ID
// for each vertex, and 'T' which is the data you wish to store in each vertex of the graph.
//
// So for a graph storing integers with a unique ID that is a string, the signature would be:
//
//	graph := dag.New[string, int]()
//
// The ID must be unique within a [Graph].
func New[K comparable, T any]() *Graph[K, T] {
	return &Graph[K, T]{
		vertices: make(map[K]*vertex[T]),
	}
}

// Order returns the number of vertices in the graph.
func (g *Graph[K, T]) Order() int {
	return len(g.vertices)
}

// Size returns the number of edges in the graph.
func (g *Graph[K, T]) Size() int {
	return g.edges
}

// AddVertex adds an item to the graph as a vertex (or node) in the graph.
//
// If the vertex already exists, an error will be returned.
//
//	graph := dag.New[string, int]()
//	graph.AddVertex("one", 1)
//
// The ID must uniquely identify a single vertex in the [Graph].
func (g *Graph[K, T]) AddVertex(id K, item T) error {
	if _, exists := g.vertices[id]; exists {
		return fmt.Errorf("vertex with id '%v' already exists", id)
	}

	g.vertices[id] = newVertex(item)
	return nil
}

// GetVertex returns the item stored in a vertex.
//
// If the vertex does not exist, an error will be returned.
func (g *Graph[K, T]) GetVertex(id K) (T, error) {
	var zero T
	vertex, exists := g.vertices[id]
	if !exists {
		return zero, fmt.Errorf("vertex with id '%v' not in graph", id)
	}

	return vertex.item, nil
}

// ContainsVertex reports whether a vertex with the given id is present in the graph.
func (g *Graph[K, T]) ContainsVertex(id K) bool {
	_, exists := g.vertices[id]
	return exists
}

// AddEdge creates a connection from the vertex with id 'from' and one
// with id 'to'.
//
// For the canonical use of a DAG (dependency graph), a dependency relationship
// of task "two" depends on task "one" the signature would be:
//
//	AddEdge("one", "two")
func (g *Graph[K, T]) AddEdge(from, to K) error {
	parent, exists := g.vertices[from]
	if !exists {
		return fmt.Errorf("parent vertex with id '%v' not in graph", from)
	}

	child, exists := g.vertices[to]
	if !exists {
		return fmt.Errorf("child vertex with id '%v' not in graph", to)
	}

	// Create the connection
	parent.children.Insert(child)
	child.parents.Insert(parent)
	g.edges++

	return nil
}

// Sort returns the topological sort of the graph, returning the underlying items
// in the correct order.
//
// A DAG may have multiple valid topological sorts, the one returned from this function
// is guaranteed to be valid but is not deterministic.
func (g *Graph[K, T]) Sort() ([]T, error) {
	// Note: this is kahns algorithm
	// https://en.wikipedia.org/wiki/Topological_sorting
	zeroInDegreeQueue := queue.New[*vertex[T]]()
	result := make([]T, 0, len(g.vertices))

	for _, vertex := range g.vertices {
		// Put all vertices with a 0 in-degree into the queue
		if vertex.inDegree() == 0 {
			zeroInDegreeQueue.Push(vertex)
		}
	}

	// If there is not at least 1 vertex with 0 in-degree, then it's not
	// a DAG and cannot be sorted
	if zeroInDegreeQueue.Empty() {
		return nil, fmt.Errorf("graph contains a cycle and cannot be sorted")
	}

	// While queue is not empty
	for !zeroInDegreeQueue.Empty() {
		vert, _ := zeroInDegreeQueue.Pop() //nolint: errcheck // Only error is pop from empty queue

		// Add its item to the result slice
		result = append(result, vert.item)

		// For each child, remove 'vert' as a parent and check if it
		// now has an in-degree of 0
		for child := range vert.children.Items() {
			child.parents.Remove(vert)

			// If it now has an in-degree of 0, add it to the queue
			if child.inDegree() == 0 {
				zeroInDegreeQueue.Push(child)
			}
		}
	}

	return result, nil
}
