// Package set implements a simple, generic set data structure.
//
// The set is not safe for concurrent access across goroutines, the caller is responsible for
// synchronising concurrent access.
package set

import (
	"fmt"
	"iter"
	"slices"
)

// Set is a simple, generic implementation of a mathematical set.
type Set[T comparable] struct {
	container map[T]struct{}
}

// New builds and returns a new empty [Set].
//
// The set will grow as needed as items are inserted, an initial small
// size is allocated.
//
// If constructing a set from a pre-existing slice of items, use [From]
// which will preallocate the set with the appropriate size. Or to collect
// an iterator into a [Set], use [Collect].
func New[T comparable]() *Set[T] {
	return &Set[T]{
		container: make(map[T]struct{}),
	}
}

// From builds a [Set] from an existing slice of items.
//
// The set will be preallocated the size of len(items).
func From[T comparable](items []T) *Set[T] {
	set := &Set[T]{container: make(map[T]struct{}, len(items))}
	for _, item := range items {
		// Note: intentionally not using Insert here as we don't need
		// the checks it provides
		set.container[item] = struct{}{}
	}
	return set
}

// Collect builds a [Set] from an iterator of items.
func Collect[T comparable](items iter.Seq[T]) *Set[T] {
	set := New[T]()
	for item := range items {
		// Note: intentionally not using Insert here as we don't need
		// the checks it provides
		set.container[item] = struct{}{}
	}

	return set
}

// Insert inserts an item into the [Set].
//
// Returns whether the item was newly inserted. Inserting an item that
// is already present is effectively a no-op.
//
//	s := set.New[string]()
//	s.Insert("foo") // true -> set was modified by the insertion
//	s.Insert("foo") // false -> "foo" is already in the set, it was not modified
func (s *Set[T]) Insert(item T) bool {
	// Indexing into a nil map doesn't panic, which is why we can do this
	// first safely
	if _, exists := s.container[item]; exists {
		return false
	}

	// nil safety
	if s.container == nil {
		s.container = make(map[T]struct{})
	}

	s.container[item] = struct{}{}
	return true
}

// Contains reports whether the set contains item.
//
//	s := set.New[int]()
//	s.Contains(1) // false
//	s.Insert(1)
//	s.Contains(1) // true
func (s *Set[T]) Contains(item T) bool {
	_, exists := s.container[item]
	return exists
}

// Remove removes an item from the set.
//
// Returns whether the value was present. Removing an item
// that wasn't in the set is effectively a no-op.
func (s *Set[T]) Remove(item T) bool {
	if _, exists := s.container[item]; !exists {
		return false
	}
	delete(s.container, item)
	return true
}

// Size returns the current size of the set.
func (s *Set[T]) Size() int {
	return len(s.container)
}

// Items returns the an iterator over the sets items.
//
// The order of the items is non-deterministic, the caller should collect
// and sort the returned items if order is important.
func (s *Set[T]) Items() iter.Seq[T] {
	return func(yield func(T) bool) {
		for item := range s.container {
			if !yield(item) {
				return
			}
		}
	}
}

// Empty reports whether the set is empty.
func (s *Set[T]) Empty() bool {
	return len(s.container) == 0
}

// String implements [fmt.Stringer] for a [Set] and allows
// it to print itself.
func (s *Set[T]) String() string {
	return fmt.Sprintf("%v", slices.Collect(s.Items()))
}

// Union returns a set that is the combination of a and b, i.e. all
// the items from both sets combined into one, with no duplicates.
func Union[S *Set[T], T comparable](a, b *Set[T]) *Set[T] {
	union := New[T]()

	for item := range a.container {
		union.Insert(item)
	}

	for item := range b.container {
		union.Insert(item)
	}

	return union
}

// Intersection returns a set containing all the items present in both a and b.
func Intersection[S *Set[T], T comparable](a, b *Set[T]) *Set[T] {
	// Take copies so as not to alter the original sets when we swap
	larger := a
	smaller := b

	intersection := New[T]()

	// Optimisation: iterate through the smallest one
	if a.Size() < b.Size() {
		larger, smaller = b, a
	}

	for item := range smaller.container {
		if larger.Contains(item) {
			intersection.Insert(item)
		}
	}

	return intersection
}

// Difference returns a set containing the items present in a but not b.
func Difference[S *Set[T], T comparable](a, b *Set[T]) *Set[T] {
	result := New[T]()
	for item := range a.container {
		if !b.Contains(item) {
			result.Insert(item)
		}
	}

	return result
}
