package spoksim

import (
	"encoding/json"
	"fmt"
	"os"
	"path/filepath"
	"sort"
	"strings"
)

// CrashCase is one case of scenario crash (C10): a history prefix, one
// invocation that is killed (at every crash point / torn at every sampled
// byte of every cache write, or at one explicit fault), and continuations.
type CrashCase struct {
	Prog   Program           `json:"prog"`
	Disk   map[string]string `json:"disk"`
	Prefix []CHOp            `json:"prefix"`
	Run    CHOp              `json:"run"`
	// Fault selects what is done to Run: nil = enumerate everything the dry run
	// lists; otherwise exactly this fault (the minimised / replay form).
	Fault *CrashFault `json:"fault,omitempty"`
	AllK  bool        `json:"all_k,omitempty"` // enumerate every byte prefix of every cache write (thorough)
	KSeed uint64      `json:"k_seed,omitempty"`
	Conts [][]CHOp    `json:"conts"`
	Sched Sched       `json:"sched"`
}

// CrashFault is one explicit fault on the killed invocation.
type CrashFault struct {
	Kind  string `json:"kind"` // point | tear
	Point int    `json:"point,omitempty"`
	Write int    `json:"write,omitempty"`
	Keep  int    `json:"keep,omitempty"`
	Err   string `json:"err,omitempty"` // tear: "" = the process dies, ENOSPC/EIO = the write fails
	// Sibling: the process dies with the complete new cache under this name beside an untouched cache.json
	Sibling string `json:"sibling,omitempty"`
}

type crashScen struct{}

func init() { register(crashScen{}) }

func (crashScen) Name() string    { return "crash" }
func (crashScen) Props() []string { return []string{"C10"} }
func (crashScen) Decode(raw json.RawMessage) (any, error) {
	var c CrashCase
	err := json.Unmarshal(raw, &c)
	return &c, err
}
func (crashScen) Rule(string) string {
	return "case = a cachehist history prefix (1-6 ops) ending in an invocation that is first run dry to list every crash point it passes (cache.init.*, run.task.before/after, task.cmd.before/after, run.dump.before/after) and every cache write with its length; then from the same disk snapshot the invocation is repeated once per crash point and once per byte prefix k of each cache write (quick: k in {0,1,len/2,len-1,len} plus 4 seeded; thorough: every k), dying there (or, for a third of the prefixes, returning ENOSPC/EIO), and twice per cache write dying with the complete new contents under a temporary-looking sibling name and cache.json untouched (a kill between write-temporary and rename); each followed by 2-3 continuations {edit/revert a dependency, nothing} + unforced runs, or {third content, run, back to what the killed run saw, run}. Histories may drop stray files beside cache.json. Oracle: in the continuation every reported skip is legal w.r.t. last[] updated with the tasks that completed before the kill; a failing continuation mentions the cache. distinct_nontrivial = distinct (crash site or tear class, tasks completed before the kill, continuation shape, outcome) tuples."
}

// genBigCrashCase: scale variant. 50-70 tasks with one dependency file each, all run once in the prefix, so that
// the cache file is larger than a memory page / disk block; then one input is edited and a run of that one task is
// killed everywhere; the continuations revert the edit.
func genBigCrashCase(r *Rng) *CrashCase {
	c := &CrashCase{Disk: map[string]string{}, Sched: genSched(r), KSeed: r.Uint64()}
	n := r.Range(50, 70)
	var names []string
	for i := 0; i < n; i++ {
		name := "T_" + string(rune('a'+i/26)) + string(rune('a'+i%26))
		f := fmt.Sprintf("big/x%02d.txt", i)
		c.Prog.Tasks = append(c.Prog.Tasks, TaskDef{Name: name, NCmd: 1, Deps: []Dep{{"file", f}}})
		c.Disk[f] = "1"
		names = append(names, name)
	}
	victim := r.Intn(n)
	vf := fmt.Sprintf("big/x%02d.txt", victim)
	c.Prefix = []CHOp{{Op: "run", Tasks: names, JSON: true}, {Op: "write", Path: vf, Content: "2"}}
	c.Run = CHOp{Op: "run", Tasks: []string{names[victim]}, JSON: r.Chance(1, 2)}
	run := CHOp{Op: "run", Tasks: []string{names[victim]}, JSON: true}
	c.Conts = [][]CHOp{{{Op: "write", Path: vf, Content: "1"}, run}, {run, run}}
	return c
}

func (crashScen) Gen(r *Rng, cfg GenConfig) any {
	if r.Chance(1, 250) {
		return genBigCrashCase(r)
	}
	base := cachehist{}.Gen(r, GenConfig{Tier: cfg.Tier, Prop: "nowriters", Idx: cfg.Idx, NumCPU: cfg.NumCPU}).(*CHCase)
	c := &CrashCase{Prog: base.Prog, Disk: base.Disk, Sched: base.Sched, AllK: cfg.Tier == "thorough" && r.Chance(1, 3), KSeed: r.Uint64()}
	n := r.Range(1, 5)
	if n > len(base.Ops) {
		n = len(base.Ops)
	}
	c.Prefix = base.Ops[:n]
	var names []string
	for _, t := range c.Prog.Tasks {
		names = append(names, t.Name)
	}
	// make the killed run interesting: usually a successful run first, then an edit
	if r.Chance(2, 3) {
		c.Prefix = append(c.Prefix, CHOp{Op: "run", Tasks: Shuffled(r, names), JSON: true})
	}
	// the disk as the prefix leaves it, so that the edit before the killed run and the
	// revert after it can name a file that exists and its previous content
	disk := map[string]string{}
	for k, v := range c.Disk {
		disk[k] = v
	}
	for _, op := range c.Prefix {
		switch op.Op {
		case "write":
			disk[op.Path] = op.Content
		case "delete":
			delete(disk, op.Path)
		}
	}
	editPath, editOld, editNew := "", "", ""
	if r.Chance(3, 4) {
		p := Pick(r, chFiles)
		if ks := sortedKeys(disk); len(ks) > 0 && r.Chance(2, 3) {
			p = Pick(r, ks)
		}
		nc := Pick(r, chContents)
		if old, ok := disk[p]; ok && old != nc {
			editPath, editOld, editNew = p, old, nc
		}
		c.Prefix = append(c.Prefix, CHOp{Op: "write", Path: p, Content: nc})
	}
	if r.Chance(1, 6) {
		// every input of a glob-only task vanishes before the killed run (which then succeeds on nothing) and
		// comes back unchanged afterwards
		for _, t := range Shuffled(r, c.Prog.Tasks) {
			globOnly := len(t.Deps) > 0
			var matched []string
			for _, d := range t.Deps {
				switch d.Kind {
				case "file":
					globOnly = false
				case "glob":
					matched = append(matched, RefGlob(disk, d.Value)...)
				}
			}
			if !globOnly || len(matched) == 0 {
				continue
			}
			if !r.Chance(2, 3) {
				c.Prefix = append(c.Prefix, CHOp{Op: "run", Tasks: []string{t.Name}, JSON: true})
			}
			var back []CHOp
			for _, f := range dedupSorted(append([]string{}, matched...)) {
				c.Prefix = append(c.Prefix, CHOp{Op: "delete", Path: f})
				back = append(back, CHOp{Op: "write", Path: f, Content: disk[f]})
			}
			c.Run = CHOp{Op: "run", Tasks: []string{t.Name}, JSON: r.Chance(1, 2)}
			run := CHOp{Op: "run", Tasks: []string{t.Name}, JSON: true}
			c.Conts = [][]CHOp{append(back, run), {run}}
			return c
		}
	}
	c.Run = CHOp{Op: "run", Tasks: Shuffled(r, Subset(r, names, 3, 4)), JSON: r.Chance(1, 2), Force: r.Chance(1, 4)}
	if len(c.Run.Tasks) == 0 {
		c.Run.Tasks = []string{Pick(r, names)}
	}
	for k := r.Range(2, 3); k > 0; k-- {
		var cont []CHOp
		switch k := r.Intn(5); {
		case k == 4 && editPath != "": // a third content, a run on it, then back to what the killed run saw
			var third string
			for third = Pick(r, chContents); third == editNew; third = Pick(r, chContents) {
			}
			run := CHOp{Op: "run", Tasks: c.Run.Tasks, JSON: r.Chance(3, 4)}
			c.Conts = append(c.Conts, []CHOp{{Op: "write", Path: editPath, Content: third}, run, {Op: "write", Path: editPath, Content: editNew}, run})
			continue
		case k <= 1 && editPath != "": // put the edited file back as it was before the killed run
			cont = append(cont, CHOp{Op: "write", Path: editPath, Content: editOld})
		case k <= 2:
			cont = append(cont, CHOp{Op: "write", Path: Pick(r, chFiles), Content: Pick(r, chContents)})
		}
		run := CHOp{Op: "run", Tasks: c.Run.Tasks, JSON: r.Chance(3, 4)}
		if r.Chance(1, 3) {
			run.Tasks = Shuffled(r, names)
		}
		cont = append(cont, run)
		if r.Chance(1, 2) {
			cont = append(cont, run)
		}
		c.Conts = append(c.Conts, cont)
	}
	return c
}

type projSnapshot struct {
	home, ctl Snapshot
	log       string
	disk      map[string]string
	ctlM      map[string]int
	last      map[string]*string
	cacheGone map[string]bool
	lastFail  map[string]bool
	logLen    int
	inv       int
}

func (s *projState) snapshot() projSnapshot {
	p := projSnapshot{home: Snap(s.w.Home), ctl: Snap(s.w.Ctl), log: readFileOr(s.w.Log, ""), disk: map[string]string{}, ctlM: map[string]int{},
		last: map[string]*string{}, lastFail: map[string]bool{}, cacheGone: map[string]bool{}, logLen: s.logLen, inv: s.inv}
	for k, v := range s.cacheGone {
		p.cacheGone[k] = v
	}
	for k, v := range s.disk {
		p.disk[k] = v
	}
	for k, v := range s.ctl {
		p.ctlM[k] = v
	}
	for k, v := range s.last {
		if v != nil {
			cp := *v
			p.last[k] = &cp
		} else {
			p.last[k] = nil
		}
	}
	for k, v := range s.lastFail {
		p.lastFail[k] = v
	}
	return p
}

func (s *projState) restore(p projSnapshot) {
	Restore(s.w.Home, p.home)
	Restore(s.w.Ctl, p.ctl)
	must(os.WriteFile(s.w.Log, []byte(p.log), 0o644))
	s.disk, s.ctl, s.last, s.lastFail = map[string]string{}, map[string]int{}, map[string]*string{}, map[string]bool{}
	for k, v := range p.disk {
		s.disk[k] = v
	}
	for k, v := range p.ctlM {
		s.ctl[k] = v
	}
	for k, v := range p.last {
		if v != nil {
			cp := *v
			s.last[k] = &cp
		} else {
			s.last[k] = nil
		}
	}
	for k, v := range p.lastFail {
		s.lastFail[k] = v
	}
	s.cacheGone = map[string]bool{}
	for k, v := range p.cacheGone {
		s.cacheGone[k] = v
	}
	s.logLen, s.inv = p.logLen, p.inv
}

// killedRun performs the invocation under a fault plan and updates the model
// with whatever completed before the kill.
func (s *projState) killedRun(res *Result, sched Sched, op CHOp, f Faults, label string) *Obs {
	obs := s.w.Invoke(Invocation{Args: runArgs(op), Cwd: s.w.Proj, Env: s.w.BaseEnv(), Inv: s.inv, Sched: sched, Faults: f})
	s.inv++
	res.Steps += len(obs.Trace)
	delta := s.logDelta()
	v := s.view(delta)
	var done []string
	closure, _ := s.prog.Closure(op.Tasks)
	for _, n := range closure {
		if len(v.markers[n]) == 0 {
			continue
		}
		if v.complete[n] {
			in, _, _ := Inputs(s.prog, s.prog.Task(n), s.withLinks(s.disk))
			s.last[n] = &in
			s.lastFail[n] = false
			s.cacheGone[n] = false
			done = append(done, n)
		} else {
			s.lastFail[n] = true
		}
	}
	for _, fd := range obs.Fired {
		kind := fd
		if i := strings.IndexByte(fd, ':'); i > 0 {
			kind = fd[:i]
			if kind == "crash" {
				kind = fd
			}
		}
		res.count("fault_fired:" + kind)
	}
	res.event("%s killed-run %v force=%v crashed=%q failed=%v fired=%v log=%v completed=%v perms=%v", label, op.Tasks, op.Force, obs.Crashed, obs.Failed, obs.Fired, delta, done, obs.Perms)
	return obs
}

func (cs crashScen) Exec(w *World, cc any, prop string) *Result {
	c := cc.(*CrashCase)
	res := newResult()
	if w.Level == "L3" {
		return cs.execProc(w, c, res)
	}
	s := newProjState(w, &c.Prog, c.Disk)
	s.logDelta()
	for oi, op := range c.Prefix {
		res.Ops++
		if op.Op == "run" {
			if stop := s.judgeRun(res, c.Sched, false, fmt.Sprintf("pre%d", oi), op, "C10", "prefix"); stop {
				return res
			}
			continue
		}
		s.applyOp(res, fmt.Sprintf("pre%d", oi), op)
	}
	if len(res.Violations) > 0 {
		// a wrong skip without any kill is C01's business
		res.Abandoned = "C01: the crash-free prefix already shows a wrong skip: " + res.Violations[0].Message
		res.Violations = nil
		return res
	}
	if _, ok := s.prog.Closure(c.Run.Tasks); !ok || len(c.Run.Tasks) == 0 {
		return res
	}
	snap := s.snapshot()

	type variant struct {
		f     Faults
		label string
		class string
	}
	var variants []variant
	if c.Fault != nil {
		f := NoFaults()
		label := ""
		if c.Fault.Kind == "point" {
			f.CrashAt = c.Fault.Point
			label = fmt.Sprintf("point#%d", c.Fault.Point)
		} else {
			f.TearWrite, f.TearKeep, f.TearErr, f.TearSibling = c.Fault.Write, c.Fault.Keep, c.Fault.Err, c.Fault.Sibling
			label = fmt.Sprintf("tear#%d@%d%s%s", c.Fault.Write, c.Fault.Keep, c.Fault.Err, c.Fault.Sibling)
		}
		variants = append(variants, variant{f, label, c.Fault.Kind})
	} else {
		// dry run: learn the crash points and cache writes of this invocation
		dry := s.killedRun(res, c.Sched, c.Run, NoFaults(), "dry")
		res.Ops++
		if dry.Out.Panic != "" || dry.Out.Deadlock {
			res.Abandoned = "C18: dry run ended abnormally"
			return res
		}
		kr := NewRng(c.KSeed, "tearks", 0)
		np, nw := 0, 0
		for _, p := range dry.Points {
			if p.Len > 0 {
				ks := map[int]bool{}
				if c.AllK {
					for k := 0; k <= p.Len; k++ {
						ks[k] = true
					}
				} else {
					for _, k := range []int{0, 1, p.Len / 2, p.Len - 4, p.Len - 3, p.Len - 2, p.Len - 1, p.Len} {
						if k >= 0 && k <= p.Len {
							ks[k] = true
						}
					}
					for i := 0; i < 4; i++ {
						ks[kr.Intn(p.Len+1)] = true
					}
				}
				var kl []int
				for k := range ks {
					kl = append(kl, k)
				}
				sort.Ints(kl)
				for _, k := range kl {
					f := NoFaults()
					f.TearWrite, f.TearKeep = nw, k
					if kr.Chance(1, 3) {
						f.TearErr = Pick(kr, []string{"ENOSPC", "EIO"})
					}
					variants = append(variants, variant{f, fmt.Sprintf("tear#%d@%d/%d%s", nw, k, p.Len, f.TearErr), "tear"})
				}
				// and a kill that leaves the finished new file beside an untouched cache.json
				for _, name := range Shuffled(kr, chDebris)[:2] {
					f := NoFaults()
					f.TearWrite, f.TearSibling = nw, name
					variants = append(variants, variant{f, fmt.Sprintf("tear#%d->%s", nw, name), "tear"})
				}
				nw++
				continue
			}
			f := NoFaults()
			f.CrashAt = np
			variants = append(variants, variant{f, fmt.Sprintf("point#%d:%s", np, p.Site), "point"})
			np++
		}
		res.add("crash_points_enumerated", np)
		res.add("cache_writes_enumerated", nw)
	}

	for _, vr := range variants {
		s.restore(snap)
		obs := s.killedRun(res, c.Sched, c.Run, vr.f, vr.label)
		res.Ops++
		if obs.Out.Panic != "" || obs.Out.Deadlock {
			res.Abandoned = "C18: killed run ended abnormally"
			return res
		}
		if vr.class == "tear" {
			if b, err := os.ReadFile(filepath.Join(w.Proj, ".spok", "cache.json")); err == nil {
				var m map[string]string
				if json.Unmarshal(b, &m) == nil {
					res.count("torn_write_left_valid_json")
				} else {
					res.count("torn_write_left_invalid_json")
				}
			}
		}
		var done []string
		for _, n := range sortedKeys(s.last) {
			if s.last[n] != nil && (snap.last[n] == nil || *snap.last[n] != *s.last[n]) {
				done = append(done, n)
			}
		}
		if len(done) > 0 && obs.Crashed != "" {
			res.count("probe:crash_after_a_completed_task")
		}
		after := s.snapshot()
		for ci, cont := range c.Conts {
			if ci > 0 {
				s.restore(after)
			}
			sig := fmt.Sprintf("%s;%s", vr.class, contShape(cont))
			before := len(res.Violations)
			for oi, op := range cont {
				res.Ops++
				label := fmt.Sprintf("%s/cont%d.%d", vr.label, ci, oi)
				if op.Op == "run" {
					if stop := s.judgeRun(res, c.Sched, false, label, op, "C10", sig); stop {
						return res
					}
					continue
				}
				s.applyOp(res, label, op)
			}
			site := obs.Crashed
			if i := strings.IndexByte(site, '('); i > 0 {
				site = site[:i]
			}
			res.distinct(fmt.Sprintf("%s|%s|done%d|%s|viol%v", vr.class, site, len(done), contShape(cont), len(res.Violations) > before))
			if len(res.Violations) > before {
				// make the violation replayable on its own: remember which fault it needs
				res.Violations[before].Message = fmt.Sprintf("[fault %s, continuation %d] %s", vr.label, ci, res.Violations[before].Message)
				res.Counters["violating_variant"] = len(variants)
				if c.Fault == nil {
					pin := cloneJSON(*c)
					pin.Conts = [][]CHOp{cont}
					if vr.class == "point" {
						pin.Fault = &CrashFault{Kind: "point", Point: vr.f.CrashAt}
					} else {
						pin.Fault = &CrashFault{Kind: "tear", Write: vr.f.TearWrite, Keep: vr.f.TearKeep, Err: vr.f.TearErr, Sibling: vr.f.TearSibling}
					}
					res.Pinned = &pin
				}
				return res
			}
		}
	}
	return res
}

func contShape(cont []CHOp) string {
	var ks []string
	for _, op := range cont {
		ks = append(ks, op.Op)
	}
	return strings.Join(ks, ",")
}

func (crashScen) Shrinks(cc any) []any {
	c := cc.(*CrashCase)
	var out []any
	add := func(f func(n *CrashCase)) {
		n := cloneJSON(*c)
		f(&n)
		out = append(out, &n)
	}
	if len(c.Conts) > 1 {
		for i := range c.Conts {
			add(func(n *CrashCase) { n.Conts = [][]CHOp{c.Conts[i]} })
		}
	}
	for i := range c.Prefix {
		add(func(n *CrashCase) { n.Prefix = append(n.Prefix[:i:i], n.Prefix[i+1:]...) })
	}
	if len(c.Conts) == 1 {
		for i := range c.Conts[0] {
			if len(c.Conts[0]) > 1 {
				add(func(n *CrashCase) { n.Conts[0] = append(n.Conts[0][:i:i], n.Conts[0][i+1:]...) })
			}
		}
	}
	if len(c.Prog.Tasks) > 1 {
		for i := range c.Prog.Tasks {
			name := c.Prog.Tasks[i].Name
			add(func(n *CrashCase) {
				tmp := &CHCase{Prog: n.Prog, Ops: append(append([]CHOp{}, n.Prefix...), n.Run)}
				for _, ct := range n.Conts {
					tmp.Ops = append(tmp.Ops, CHOp{Op: "|"})
					tmp.Ops = append(tmp.Ops, ct...)
				}
				dropTask(tmp, name)
				n.Prog = tmp.Prog
				// split back
				var parts [][]CHOp
				cur := []CHOp{}
				for _, op := range tmp.Ops {
					if op.Op == "|" {
						parts = append(parts, cur)
						cur = []CHOp{}
						continue
					}
					cur = append(cur, op)
				}
				parts = append(parts, cur)
				head := parts[0]
				n.Conts = parts[1:]
				// the killed run is the last run of head that was n.Run; if it vanished keep a run of the first task
				if len(head) > 0 && head[len(head)-1].Op == "run" && len(head) == len(n.Prefix)+1-countDropped(n.Prefix, name) {
					n.Run = head[len(head)-1]
					n.Prefix = head[:len(head)-1]
				} else {
					n.Prefix = head
					n.Run = CHOp{Op: "run", Tasks: []string{n.Prog.Tasks[0].Name}, JSON: true}
				}
			})
		}
	}
	for ti, t := range c.Prog.Tasks {
		for di := range t.Deps {
			add(func(n *CrashCase) {
				d := n.Prog.Tasks[ti].Deps
				n.Prog.Tasks[ti].Deps = append(d[:di:di], d[di+1:]...)
			})
		}
		if t.NCmd > 1 {
			add(func(n *CrashCase) { n.Prog.Tasks[ti].NCmd = 1 })
		}
	}
	if len(c.Run.Tasks) > 1 {
		for k := range c.Run.Tasks {
			add(func(n *CrashCase) { n.Run.Tasks = append(n.Run.Tasks[:k:k], n.Run.Tasks[k+1:]...) })
		}
	}
	for _, f := range sortedKeys(c.Disk) {
		add(func(n *CrashCase) { delete(n.Disk, f) })
	}
	if c.Sched.Policy != "fifo" {
		add(func(n *CrashCase) { n.Sched = Sched{Policy: "fifo"} })
	}
	return out
}

func countDropped(prefix []CHOp, name string) int {
	n := 0
	for _, op := range prefix {
		switch op.Op {
		case "run":
			only := true
			for _, t := range op.Tasks {
				if t != name {
					only = false
				}
			}
			if only {
				n++
			}
		case "ctl":
			if op.Task == name {
				n++
			}
		}
	}
	return n
}

// ---------------------------------------------------------------- level L3: real SIGKILL

// execProc is the process-level twin of Exec: the killed invocation is the real
// binary, the kill is a real SIGKILL that the control script of one command
// sends to spok itself (`kill -9 $$`, once per command position of the run), and
// a torn cache write is emulated between invocations by truncating cache.json to
// a byte prefix (the same durable state a kill inside the write leaves). The
// continuations and the oracle are those of level L2.
func (crashScen) execProc(w *World, c *CrashCase, res *Result) *Result {
	s := newProjState(w, &c.Prog, c.Disk)
	s.logDelta()
	for oi, op := range c.Prefix {
		res.Ops++
		if op.Op == "run" {
			if stop := s.judgeRun(res, c.Sched, false, fmt.Sprintf("pre%d", oi), op, "C10", "prefix"); stop {
				return res
			}
			continue
		}
		s.applyOp(res, fmt.Sprintf("pre%d", oi), op)
	}
	if len(res.Violations) > 0 {
		res.Abandoned = "C01: the crash-free prefix already shows a wrong skip: " + res.Violations[0].Message
		res.Violations = nil
		return res
	}
	closure, ok := s.prog.Closure(c.Run.Tasks)
	if !ok || len(c.Run.Tasks) == 0 {
		return res
	}
	snap := s.snapshot()
	type variant struct {
		task  string
		cmd   int
		keep  int // >= 0: afterwards truncate cache.json to this many bytes
		label string
		fsize int // > 0: no kill; the invocation runs under a file size limit of so many bytes (disk full inside its writes)
	}
	var variants []variant
	kr := NewRng(c.KSeed, "prockill", 0)
	for _, n := range closure {
		for i := 0; i < s.prog.Task(n).NCmd; i++ {
			variants = append(variants, variant{n, i, -1, fmt.Sprintf("kill@%s#%d", n, i), 0})
		}
	}
	for i := 0; i < 3; i++ {
		variants = append(variants, variant{"", 0, kr.Intn(120), "tearfile", 0})
	}
	for _, lim := range []int{Pick(kr, []int{60, 70, 78}), Pick(kr, []int{100, 150, 200})} {
		variants = append(variants, variant{"", 0, -1, fmt.Sprintf("fsize%d", lim), lim})
	}
	cachePath := filepath.Join(w.Proj, ".spok", "cache.json")
	for _, vr := range variants {
		s.restore(snap)
		if vr.task != "" {
			key := fmt.Sprintf("%s_%d", vr.task, vr.cmd)
			s.ctl[key] = 137
			writeFile(filepath.Join(w.Ctl, key), "kill -9 $$\n")
		}
		f := NoFaults()
		if vr.fsize > 0 {
			// the side-effect log is subject to the limit too: start it afresh so that only the cache writes hit it
			must(os.WriteFile(w.Log, nil, 0o644))
			s.logLen = 0
			f.FsizeLimit = vr.fsize
			res.count("fault_fired:file_size_limit")
		}
		obs := s.killedRun(res, c.Sched, c.Run, f, vr.label)
		res.Ops++
		if vr.task != "" {
			s.setCtl(vr.task, vr.cmd, 0) // the kill was an event, not a property of the command
			if obs.Crashed == "SIGKILL" {
				res.count("fault_fired:real_SIGKILL")
			} else {
				res.count("kill_not_reached_task_was_skipped")
			}
		}
		if obs.Out.Panic != "" {
			res.Abandoned = "C18: the process died on its own: " + short(obs.Out.Panic, 200)
			return res
		}
		class := "kill"
		if vr.fsize > 0 {
			class = "fsize"
			if b, err := os.ReadFile(cachePath); err == nil {
				var m map[string]string
				if json.Unmarshal(b, &m) != nil {
					res.count("probe:file_size_limit_left_invalid_cache")
				}
			}
		}
		if vr.keep >= 0 {
			class = "tear"
			if b, err := os.ReadFile(cachePath); err == nil && len(b) > 0 {
				k := vr.keep % len(b)
				must(os.WriteFile(cachePath, b[:k], 0o644))
				res.count("fault_fired:cache_file_truncated")
			}
		}
		after := s.snapshot()
		for ci, cont := range c.Conts {
			if ci > 0 {
				s.restore(after)
			}
			sig := fmt.Sprintf("L3:%s;%s", class, contShape(cont))
			before := len(res.Violations)
			for oi, op := range cont {
				res.Ops++
				label := fmt.Sprintf("%s/cont%d.%d", vr.label, ci, oi)
				if op.Op == "run" {
					if stop := s.judgeRun(res, c.Sched, false, label, op, "C10", sig); stop {
						return res
					}
					continue
				}
				s.applyOp(res, label, op)
			}
			res.distinct(fmt.Sprintf("L3|%s|%s|crashed%v|viol%v", class, contShape(cont), obs.Crashed != "", len(res.Violations) > before))
			if len(res.Violations) > before {
				res.Violations[before].Message = fmt.Sprintf("[level L3, %s, continuation %d] %s", vr.label, ci, res.Violations[before].Message)
				return res
			}
		}
	}
	return res
}
