package spoksim

import (
	"bytes"
	"errors"
	"fmt"
	"os"
	"os/exec"
	"sort"
	"syscall"
)

// Level L3: the real spok binary (built from /repo's working tree WITHOUT the
// verif tag, cmd/spok/main.go included) run as a child process with an explicit
// environment and working directory. The only simulated piece left is the dag
// iteration order (SPOKSIM_DAGSEED, instrumented collections copy); the hash
// worker pool runs under the real Go scheduler. A crash is a real SIGKILL that
// a task's control script sends to spok itself (`kill -9 $$`).

// SpokBin is the path of the binary; empty = L3 not available in this run.
var SpokBin = os.Getenv("SIM_SPOK_BIN")

// prlimitPath: util-linux prlimit(1), used to start a child under RLIMIT_FSIZE; without it that fault is skipped.
var prlimitPath, _ = exec.LookPath("prlimit")

// InvokeProc runs one invocation at level L3.
func (w *World) InvokeProc(in Invocation) *Obs {
	obs := &Obs{Counts: map[string]int{}}
	cmd := exec.Command(SpokBin, in.Args...)
	if in.Faults.FsizeLimit > 0 && prlimitPath == "" {
		obs.Counts["fault_unavailable:file_size_limit_needs_prlimit"]++
	}
	if in.Faults.NofileLimit > 0 && prlimitPath != "" {
		cmd = exec.Command(prlimitPath, append([]string{fmt.Sprintf("--nofile=%d:%d", in.Faults.NofileLimit, in.Faults.NofileLimit), SpokBin}, in.Args...)...)
	}
	if in.Faults.FsizeLimit > 0 && prlimitPath != "" {
		// prlimit sets the limit and execs the binary: the limit is in force from the first instruction on.
		// The Go runtime ignores SIGXFSZ, so the write simply fails with EFBIG after a short write.
		cmd = exec.Command(prlimitPath, append([]string{fmt.Sprintf("--fsize=%d", in.Faults.FsizeLimit), SpokBin}, in.Args...)...)
	}
	cmd.Dir = in.Cwd
	env := []string{"PATH=/usr/bin:/bin", fmt.Sprintf("SPOKSIM_DAGSEED=%d", dagSeed(in.Sched, in.Inv))}
	for _, k := range sortedKeys(in.Env) {
		env = append(env, k+"="+in.Env[k])
	}
	sort.Strings(env)
	cmd.Env = env
	var so, se bytes.Buffer
	cmd.Stdout, cmd.Stderr = &so, &se
	err := cmd.Run()
	obs.Stdout, obs.Stderr = so.String(), se.String()
	obs.Out.Returned = true
	if err != nil {
		var ee *exec.ExitError
		if !errors.As(err, &ee) {
			panic(harnessError{"cannot run the spok binary: " + err.Error()})
		}
		if ws, ok := ee.Sys().(syscall.WaitStatus); ok && ws.Signaled() {
			if ws.Signal() == syscall.SIGKILL {
				obs.Crashed = "SIGKILL"
			} else {
				// SIGSEGV / SIGABRT: the Go runtime died (unrecovered panic prints and exits 2, so this is rarer)
				obs.Out.Panic = fmt.Sprintf("process terminated by signal %v: %s", ws.Signal(), short(obs.Stderr, 400))
			}
			return obs
		}
		obs.ExitCode = ee.ExitCode()
		if obs.ExitCode == 2 && bytes.Contains(se.Bytes(), []byte("goroutine ")) && bytes.Contains(se.Bytes(), []byte("panic: ")) {
			obs.Out.Panic = short(obs.Stderr, 600)
			return obs
		}
		obs.Failed = true
		obs.ErrText = obs.Stderr
	}
	return obs
}

func dagSeed(s Sched, inv int) uint64 {
	if s.Policy != "random" {
		return uint64(1 + inv)
	}
	return NewRng(s.Seed, "dagseed", uint64(inv)).Uint64()>>1 | 1
}
