package spoksim

import (
	"encoding/json"
	"fmt"
	"os"
	"path/filepath"
	"sort"
	"strings"
)

// ActCase is one case of scenario actions (C19, C20).
type ActCase struct {
	Kind    string            `json:"kind"` // valid | syntaxerr | undefbuiltin | failexec | duptask | badtemplate
	Prog    Program           `json:"prog"`
	Tree    map[string]string `json:"tree"`
	Actions []Act             `json:"actions"`
	Sched   Sched             `json:"sched"`
	// Symlink: proj/spokfile is a symbolic link to ../shared/spokfile (a spokfile shared between projects)
	Symlink bool `json:"symlink,omitempty"`
}

// Act is one invocation.
type Act struct {
	Args []string `json:"args"`
	Cwd  string   `json:"cwd,omitempty"`
	// Damage: before this invocation the cache file of the project, if there is one, is left as an interrupted
	// earlier run leaves it: truncated to half, empty, or overwritten with garbage
	Damage string `json:"damage,omitempty"`
	// StaleLock: before this invocation a lock file of a dead process lies in the cache directory (if there is one)
	// and next to the spokfile, under this name: what a killed run of a locking implementation leaves behind
	StaleLock string `json:"stale_lock,omitempty"`
	// Fsize (level L3 only): this invocation runs with a file size limit of so many bytes (exec.go FsizeLimit)
	Fsize int `json:"fsize,omitempty"`
}

// WantsL3: cases with a file size limit are always executed against the real binary too.
func (actScen) WantsL3(cc any) bool {
	for _, a := range cc.(*ActCase).Actions {
		if a.Fsize > 0 {
			return true
		}
	}
	return false
}

type actScen struct{}

func init() { register(actScen{}) }

func (actScen) Name() string    { return "actions" }
func (actScen) Props() []string { return []string{"C19", "C20"} }
func (actScen) Decode(raw json.RawMessage) (any, error) {
	var c ActCase
	err := json.Unmarshal(raw, &c)
	return &c, err
}
func (actScen) Rule(prop string) string {
	if prop == "C19" {
		return "case = a project tree with decoys (.gitignore, .env, notes, files named like outputs, nested directories) + a spokfile that is valid / has a syntax error / calls an undefined builtin / has a failing exec / defines a task twice, + a sequence of 2-6 invocations drawn from {no args, task names, --show, --vars, --fmt, --init, --force, --quiet, --json, --debug and combinations} from the root or a nested directory, so that state created by one action (cache dir, .gitignore lines, a demo spokfile in a nested directory) is present for the next. Oracle: snapshot diff of $HOME per invocation is a subset of what the action may touch. distinct_nontrivial = distinct (spokfile kind, flag set, cwd class, existing-state class, outcome) tuples."
	}
	return "case = a spokfile of 1-5 tasks (0-2 commands printing distinct markers to stdout and stderr, one task in five with an extra plain command that contains and prints percent signs, with/without docstrings, with/without file and task dependencies, with/without a task named default), 0-3 variables, and 2-6 invocations over {--json, --quiet, --force, plain, --show, --vars, no arguments}, first and repeated so that skipped tasks appear. Oracle: --json prints exactly one JSON document listing exactly the closure in execution order with skipped flags and, per executed command, its text, stdout, stderr and status; --quiet prints nothing; --show lists every task once sorted by name with its docstring; --vars every variable with its value; no arguments runs default or lists. distinct_nontrivial = distinct (flag set, number of tasks run/skipped, default defined?, docs pattern) tuples."
}

var acFlagSets = [][]string{{}, {"--json"}, {"--quiet"}, {"--force"}, {"--force", "--json"}, {"--debug"}, {"--json", "--debug"}, {"--quiet", "--debug"},
	{"--json", "--quiet"}, {"--json", "--quiet", "--force"}, {"-j"}, {"-q"}, {"-f", "-j"}}
var acCwds = []string{"", "", "", "sub", "sub/deep"}

func (actScen) Gen(r *Rng, cfg GenConfig) any {
	c := &ActCase{Kind: "valid", Tree: map[string]string{}, Sched: genSched(r)}
	if cfg.Prop == "C19" {
		c.Kind = Pick(r, []string{"valid", "valid", "valid", "syntaxerr", "undefbuiltin", "failexec", "duptask", "badtemplate"})
	}
	nt := r.Range(1, 5)
	names := []string{"AAAAAA", "BBBBBB", "CCCCCC", "DDDDDD", "EEEEEE"}[:nt]
	if r.Chance(1, 3) {
		names[r.Intn(nt)] = "default"
	}
	for i, n := range names {
		t := TaskDef{Name: n, NCmd: Pick(r, []int{0, 1, 1, 2})}
		if r.Chance(1, 2) {
			t.Doc = Pick(r, []string{"Build the " + n + " thing", "doc", "Runs   tests", "x", "Fail when coverage drops below 80%", "100% speed %s %d %v", "uses {{.NAME}} and $HOME", "a\\tb \\n c", "ünï côdé"})
		}
		if r.Chance(1, 2) {
			t.Deps = append(t.Deps, Dep{"file", Pick(r, []string{"a.txt", "b.txt"})})
		}
		if r.Chance(1, 5) {
			t.Deps = append(t.Deps, Dep{"glob", "*.txt"})
		}
		if i > 0 && r.Chance(1, 3) {
			t.Deps = append(t.Deps, Dep{"task", names[r.Intn(i)]})
		}
		if r.Chance(1, 6) {
			t.Outs = append(t.Outs, Out{"file", "out.bin"})
		}
		if r.Chance(1, 5) {
			// a plain command whose text and output contain characters that matter to printf-style formatting
			t.Raw = append(t.Raw, Pick(r, []string{"echo progress 100% done", "echo 50%d and %s and %v", "echo tab-and-percent %", "echo a%%b",
				`echo 'a\u0026b \u003c \u003e'`, `echo 'back\\slash and "quote"'`}))
		}
		c.Prog.Tasks = append(c.Prog.Tasks, t)
	}
	c.Prog.Tasks = Shuffled(r, c.Prog.Tasks)
	for _, vn := range Subset(r, []string{"VERSION", "NAME", "TARGET"}, 1, 2) {
		c.Prog.Vars = append(c.Prog.Vars, VarDef{Name: vn, Kind: "str", Args: []string{Pick(r, []string{"1.2.3", "hello world", "x", "a/b", "k=v", "=lead", "-X a=b -Y c=d", "trail=", "100%", "%s and %d"})}})
	}
	if r.Chance(1, 100) {
		// a very long line near the top of the spokfile: everything after it must still be there
		c.Prog.Vars = append([]VarDef{{Name: "BIGV", Kind: "str", Args: []string{"{BIG}"}}}, c.Prog.Vars...)
	}
	c.Prog.Layout = r.Intn(6)
	c.Tree["a.txt"], c.Tree["b.txt"] = "1", "1"
	for _, d := range Subset(r, []string{".gitignore", ".env", "sub/notes.txt", "out.bin", "sub/deep/spokfile.bak", "sub/.gitignore", "README",
		"spokfile.tmp", "spokfile~", "spokfile.bak", ".spokfile.swp", "spokfile.orig", "spokfile.new"}, 1, 3) {
		c.Tree[d] = Pick(r, []string{"decoy\n", "node_modules/\n", "UNRELATED=1\n"})
		if strings.HasSuffix(d, ".env") {
			c.Tree[d] = "UNRELATED=1\n"
			if cfg.Prop == "C19" && r.Chance(1, 4) {
				c.Tree[d] = Pick(r, []string{"this line is not an assignment\n", "A=1\n=novalue\n", "export\n'unterminated\n"})
			}
		}
		if strings.HasSuffix(d, ".gitignore") && r.Chance(1, 10) {
			c.Tree[d] = "build/\n# {BIG}\nnode_modules/\ndist/\n" // a very long line in the middle
		}
	}
	c.Symlink = cfg.Prop == "C19" && r.Chance(1, 6)
	na := r.Range(2, 6)
	if cfg.Tier == "thorough" && r.Chance(1, 4) {
		na = r.Range(7, 12)
	}
	for i := 0; i < na; i++ {
		a := Act{Cwd: Pick(r, acCwds)}
		switch k := r.Intn(20); {
		case k < 8: // run tasks
			a.Args = append(a.Args, Shuffled(r, Subset(r, names, 1, 2))...)
			if len(a.Args) == 0 {
				a.Args = []string{Pick(r, names)}
			}
			a.Args = append(a.Args, Pick(r, acFlagSets)...)
		case k < 10: // no arguments (default action), maybe with flags
			a.Args = append(a.Args, Pick(r, acFlagSets)...)
		case k < 12:
			a.Args = []string{"--show"}
		case k < 14:
			a.Args = []string{"--vars"}
		case k < 16 && cfg.Prop == "C19":
			a.Args = []string{"--fmt"}
			if r.Chance(1, 3) {
				a.Args = append(a.Args, Pick(r, []string{"--quiet", "--json", "--show", "--debug"}))
			}
		case k < 19 && cfg.Prop == "C19":
			a.Args = []string{"--init"}
			if r.Chance(1, 3) {
				a.Args = append(a.Args, Pick(r, []string{"--quiet", "--force", "--show", "--fmt"}))
			}
		default:
			a.Args = []string{"--show", Pick(r, []string{"--quiet", "--json", "--debug"})}
		}
		if cfg.Prop == "C19" && r.Chance(1, 10) {
			// name the spokfile explicitly: the real one, or a sibling whose name differs only in letter case
			a.Args = append(a.Args, "--spokfile", Pick(r, []string{"{PROJ}/spokfile", "{PROJ}/Spokfile", "{PROJ}/sub/SPOKFILE"}))
			c.Tree["Spokfile"] = "task variant() {\n    echo   variant\n}\n"
			c.Tree["sub/SPOKFILE"] = "task   shouting( ) {\n echo loud\n}\n"
		}
		c.Actions = append(c.Actions, a)
	}
	if cfg.Prop == "C19" && r.Chance(1, 10) {
		// a full disk / exhausted quota strikes inside the writes of one invocation (level L3 only)
		at := r.Intn(len(c.Actions))
		c.Actions[at].Fsize = Pick(r, []int{1, 16, 64, 200, 1000})
		switch r.Intn(4) {
		case 0, 1:
			c.Actions[at].Args = []string{"--fmt"}
		case 2:
			c.Actions[at].Args = []string{"--init"}
		}
	}
	if r.Chance(1, 10) {
		at := r.Range(1, len(c.Actions)-1)
		c.Actions[at].StaleLock = Pick(r, []string{"lock", ".lock", "spok.lock", "cache.lock", "LOCK", "cache.json.lock"})
		if r.Chance(2, 3) {
			c.Actions[0] = Act{Args: []string{Pick(r, names)}}
		}
	}
	if cfg.Prop == "C19" && r.Chance(1, 8) {
		// needs a cache to damage: put it after the first action and make that one a run from the project root
		at := r.Range(1, len(c.Actions)-1)
		c.Actions[at].Damage = Pick(r, []string{"truncate", "empty", "garbage"})
		if r.Chance(2, 3) {
			c.Actions[0] = Act{Args: []string{Pick(r, names)}}
		}
		if r.Chance(1, 2) {
			c.Actions[at].Args = []string{Pick(r, names)}
			c.Actions[at].Args = append(c.Actions[at].Args, Pick(r, acFlagSets)...)
		}
	}
	return c
}

var shortFlag = map[string]string{"--json": "-j", "--quiet": "-q", "--force": "-f", "--show": "-s", "--clean": "-c"}

func hasFlag(args []string, f string) bool {
	for _, a := range args {
		if a == f || (shortFlag[f] != "" && a == shortFlag[f]) {
			return true
		}
	}
	return false
}

func taskArgs(args []string) []string {
	var out []string
	for _, a := range args {
		if !strings.HasPrefix(a, "-") {
			out = append(out, a)
		}
	}
	return out
}

func (actScen) Exec(w *World, cc any, prop string) *Result {
	c := cc.(*ActCase)
	res := newResult()
	proj := w.Proj
	must(os.MkdirAll(filepath.Join(proj, "sub", "deep"), 0o755))
	s := newProjState(w, &c.Prog, nil)
	for _, f := range sortedKeys(c.Tree) {
		s.write(f, expandBig(c.Tree[f]))
	}
	text := c.Prog.Render()
	switch c.Kind {
	case "syntaxerr":
		text += "task broken( {\n"
	case "undefbuiltin":
		text = "UNDEF := nosuchbuiltin(\"x\")\n" + text
	case "failexec":
		text = "FAILS := exec(\"exit 3\")\n" + text
	case "badtemplate":
		// parses, but the command is not a valid template: the spokfile does not load. The task comes first, so
		// that no variable is declared above it
		text = "task tmpl() {\n    echo {{ .NAME\n}\n\n" + text
	case "duptask":
		text += fmt.Sprintf("task %s() {\n    echo again\n}\n", c.Prog.Tasks[0].Name)
	}
	writeFile(filepath.Join(proj, "spokfile"), text)
	if c.Symlink {
		must(os.Remove(filepath.Join(proj, "spokfile")))
		writeFile(filepath.Join(w.Home, "shared", "spokfile"), text)
		must(os.Symlink(filepath.Join("..", "shared", "spokfile"), filepath.Join(proj, "spokfile")))
		res.count("probe:spokfile_is_a_symlink")
	}
	s.logDelta()
	// which directories hold a spokfile, and of which kind
	spokAt := map[string]string{"": c.Kind} // dir relative to proj -> valid|...|demo

	for ai, a := range c.Actions {
		cwdRel := a.Cwd
		cwd := filepath.Join(proj, filepath.FromSlash(cwdRel))
		// the spokfile in use: nearest at or above cwd (inside the project)
		useDir, useKind := "", ""
		for d := cwdRel; ; d = filepath.ToSlash(filepath.Dir(d)) {
			if d == "." {
				d = ""
			}
			if k, ok := spokAt[d]; ok {
				useDir, useKind = d, k
				break
			}
			if d == "" {
				break
			}
		}
		if a.StaleLock != "" {
			if st, err := os.Stat(filepath.Join(proj, ".spok")); err == nil && st.IsDir() {
				writeFile(filepath.Join(proj, ".spok", a.StaleLock), "999999\n")
				res.count("fault_fired:stale_lock_file_in_cache_directory")
			}
		}
		if a.Damage != "" {
			cf := filepath.Join(proj, ".spok", "cache.json")
			if old, err := os.ReadFile(cf); err == nil {
				switch a.Damage {
				case "truncate":
					must(os.WriteFile(cf, old[:len(old)/2], 0o644))
				case "empty":
					must(os.WriteFile(cf, nil, 0o644))
				default:
					must(os.WriteFile(cf, []byte("\x00\x00{\"half\": "), 0o644))
				}
				res.count("fault_fired:cache_file_damaged_" + a.Damage)
			}
		}
		pre := Snap(w.Home)
		args := append([]string{}, a.Args...)
		named := ""
		for i := range args {
			if strings.HasPrefix(args[i], "{PROJ}/") {
				named = strings.TrimPrefix(args[i], "{PROJ}/")
				args[i] = filepath.Join(proj, filepath.FromSlash(named))
			}
		}
		if named != "" {
			// the file named with --spokfile is the spokfile in use (when the name is accepted at all)
			useDir, useKind = filepath.ToSlash(filepath.Dir(named)), "named"
			if useDir == "." {
				useDir = ""
			}
			if named == "spokfile" {
				useKind = c.Kind
			}
			res.count("probe:spokfile_named_on_command_line")
		}
		faults := NoFaults()
		if a.Fsize > 0 && w.Level == "L3" {
			faults.FsizeLimit = a.Fsize
			res.count("fault_fired:file_size_limit")
		}
		obs := w.Invoke(Invocation{Args: args, Cwd: cwd, Env: w.BaseEnv(), Inv: ai, Sched: c.Sched, Faults: faults})
		res.Ops++
		res.Steps += len(obs.Trace)
		post := Snap(w.Home)
		created, removed, changed := pre.Diff(post)
		delta := s.logDelta()
		res.event("act%d %v cwd=%q use=%q/%s failed=%v created=%v removed=%v changed=%v log=%v perms=%v stdout=%s", ai, a.Args, cwdRel, useDir, useKind, obs.Failed, created, removed, changed, delta, obs.Perms, normHash(obs.Stdout))
		if obs.Out.Panic != "" || obs.Out.Deadlock {
			res.Abandoned = "C18: invocation ended abnormally: " + short(obs.Out.Panic, 200)
			return res
		}
		isInit := hasFlag(a.Args, "--init")
		isFmt := hasFlag(a.Args, "--fmt") && !isInit
		sig := fmt.Sprintf("act:%s", strings.Join(flagsOnly(a.Args), ","))
		relHome := func(rel string) string { return filepath.ToSlash(filepath.Join("proj", rel)) }

		// ---------------- C19: frame condition
		allowed := map[string]bool{}
		cacheDir := relHome(filepath.Join(useDir, ".spok"))
		initTarget := relHome(filepath.Join(cwdRel, "spokfile"))
		initIgnore := relHome(filepath.Join(cwdRel, ".gitignore"))
		_, existsHere := pre[initTarget]
		switch {
		case isInit:
			if !existsHere {
				allowed[initTarget] = true
				allowed[initIgnore] = true
			}
		case isFmt && useKind == "named":
			// whatever name is accepted, --fmt may rewrite the file that was named and nothing else
			allowed[relHome(named)] = true
		case isFmt:
			if useKind == "valid" || useKind == "demo" || useKind == "partial" {
				allowed[relHome(filepath.Join(useDir, "spokfile"))] = true
				if c.Symlink && useDir == "" {
					allowed["shared/spokfile"] = true // writing through the link rewrites its target
				}
			}
		}
		if prop == "C19" {
			for _, p := range append(append(append([]string{}, created...), removed...), changed...) {
				if allowed[p] || (!isInit && under(p, cacheDir)) {
					continue
				}
				what := "created"
				if _, ok := pre[p]; ok {
					what = "changed"
					if _, still := post[p]; !still {
						what = "removed"
					}
				}
				res.violate("C19", "writes-only-where-the-action-may", sig, "act%d %v (cwd %q, spokfile in use %q of kind %s) %s %q; allowed: %v and %s/**", ai, a.Args, cwdRel, useDir, useKind, what, p, sortedKeys(allowed), cacheDir)
				return res
			}
			if isInit && len(flagsOnly(a.Args)) > 1 {
				res.count("accept_either:init_combined_with_other_flags")
			}
			if isInit && len(flagsOnly(a.Args)) == 1 {
				if existsHere {
					res.count("probe:init_with_existing_spokfile")
					if !obs.Failed {
						res.violate("C19", "init-never-overwrites", sig, "act%d: --init in a directory that already has a spokfile did not report an error", ai)
						return res
					}
				} else if !obs.Failed {
					if _, ok := post[initTarget]; !ok {
						res.violate("C19", "init-creates-spokfile", sig, "act%d: --init succeeded but no spokfile was created in %q", ai, cwdRel)
						return res
					}
					old := pre[initIgnore].Content
					if !strings.HasPrefix(post[initIgnore].Content, old) {
						res.violate("C19", "init-appends-to-gitignore", sig, "act%d: --init rewrote .gitignore: old content %q is not a prefix of %q", ai, old, post[initIgnore].Content)
						return res
					}
					if old != "" {
						res.count("probe:init_appended_to_existing_gitignore")
					}
					res.count("probe:init_created_spokfile")
				}
			}
			if isFmt {
				if useKind != "valid" && useKind != "demo" {
					res.count("probe:fmt_on_invalid_spokfile")
				} else if len(changed) > 0 {
					res.count("probe:fmt_rewrote_spokfile")
				} else {
					res.count("probe:fmt_left_formatted_file_unchanged")
				}
			}
			if len(created)+len(removed)+len(changed) == 0 {
				res.count("probe:invocation_left_tree_identical")
			}
		}
		if isInit && !obs.Failed && !existsHere {
			spokAt[cwdRel] = "demo"
		} else if isInit && !existsHere {
			if _, ok := post[initTarget]; ok {
				spokAt[cwdRel] = "partial" // a failed --init left a (possibly incomplete) spokfile behind
			}
		}
		existing := "fresh"
		if _, ok := pre[cacheDir]; ok {
			existing = "cache"
		}
		res.distinctIf(prop == "C19", fmt.Sprintf("%s|%v|%s|%s|%v|%d", useKind, flagsOnly(a.Args), cwdClass(cwdRel), existing, obs.Failed, len(created)+len(changed)))

		// ---------------- C20: reports and listings (only for our own valid spokfile)
		if prop != "C20" || useKind != "valid" || isInit || isFmt {
			continue
		}
		if stop := s.judgeReport(res, c, ai, a, obs, delta, sig); stop {
			return res
		}
	}
	return res
}

func flagsOnly(args []string) []string {
	var out []string
	for _, a := range args {
		if strings.HasPrefix(a, "-") {
			out = append(out, a)
		}
	}
	sort.Strings(out)
	return out
}

func cwdClass(c string) string {
	if c == "" {
		return "root"
	}
	return "nested"
}

// judgeReport evaluates C20's predicates on one invocation against a valid spokfile.
func (s *projState) judgeReport(res *Result, c *ActCase, ai int, a Act, obs *Obs, delta []string, sig string) (stop bool) {
	p := s.prog
	quiet, js, debug := hasFlag(a.Args, "--quiet"), hasFlag(a.Args, "--json"), hasFlag(a.Args, "--debug")
	show, vars := hasFlag(a.Args, "--show"), hasFlag(a.Args, "--vars")
	req := taskArgs(a.Args)
	v := s.view(delta)
	if quiet && debug {
		if !obs.Failed {
			res.Abandoned = "--quiet with --debug is documented as an error"
			return true
		}
		return false
	}
	listing := show || (len(req) == 0 && !vars && p.Task("default") == nil)
	switch {
	case vars:
		if quiet || js {
			res.count("accept_either:listing_with_quiet_or_json")
			return false
		}
		for _, vd := range p.Vars {
			found := false
			for _, l := range strings.Split(obs.Stdout, "\n") {
				f := tableFields(l)
				if len(f) >= 1 && f[0] == vd.Name && strings.Join(f[1:], " ") == strings.Join(tableFields(expandBig(vd.Args[0])), " ") {
					found = true
				}
			}
			if !found {
				res.violate("C20", "vars-lists-every-variable", sig, "act%d: --vars does not list %s = %q:\n%s", ai, vd.Name, vd.Args[0], short(obs.Stdout, 400))
				return true
			}
		}
		res.count("probe:vars_listing_checked")
		return false
	case listing:
		if len(delta) > 0 {
			res.violate("C20", "listing-runs-nothing", sig, "act%d %v should only list tasks but ran %v", ai, a.Args, delta)
			return true
		}
		if quiet {
			if strings.TrimSpace(obs.Stdout) != "" {
				res.violate("C20", "quiet-prints-nothing", sig, "act%d %v printed %q on stdout", ai, a.Args, short(obs.Stdout, 200))
				return true
			}
			return false
		}
		if js {
			res.count("accept_either:listing_with_quiet_or_json")
			return false
		}
		if obs.Failed {
			res.Abandoned = "listing failed: " + short(obs.ErrText, 200)
			return true
		}
		// every defined task exactly once, ascending by name, with its docstring
		var names []string
		docs := map[string]string{}
		for _, t := range p.Tasks {
			names = append(names, t.Name)
			docs[t.Name] = strings.Join(strings.Fields(t.Doc), " ")
		}
		sort.Strings(names)
		// a task line is a line whose first word is a defined task name; title, header and
		// separator lines are ignored, and so is table punctuation (the layout is not specified)
		var gotNames []string
		for _, l := range strings.Split(obs.Stdout, "\n") {
			f := tableFields(l)
			if len(f) == 0 {
				continue
			}
			d, ok := docs[f[0]]
			if !ok {
				continue
			}
			gotNames = append(gotNames, f[0])
			if strings.Join(f[1:], " ") != d {
				res.violate("C20", "show-lists-docstrings", sig, "act%d: task %s is listed with description %q, its docstring is %q", ai, f[0], strings.Join(f[1:], " "), d)
				return true
			}
		}
		if strings.Join(gotNames, ",") != strings.Join(names, ",") {
			res.violate("C20", "show-lists-every-task-once-sorted", sig, "act%d %v lists %v, the spokfile defines %v (sorted)", ai, a.Args, gotNames, names)
			return true
		}
		res.count("probe:show_listing_checked")
		if len(req) == 0 && !show {
			res.count("probe:no_args_lists_tasks")
		}
		return false
	}
	// ---- a run
	if len(req) == 0 {
		req = []string{"default"}
		res.count("probe:no_args_runs_default")
		if len(v.markers["default"]) == 0 && p.Task("default").NCmd > 0 && !obs.Failed && !skippable(p.Task("default")) {
			res.violate("C20", "no-args-runs-default", sig, "act%d: no task names given and a task named default exists, but it did not run (log %v)", ai, delta)
			return true
		}
	}
	closure, ok := p.Closure(req)
	if !ok {
		return false
	}
	if obs.Failed {
		res.Abandoned = "run failed although no command fails: " + short(obs.ErrText, 200)
		return true
	}
	if quiet && !js {
		if obs.Stdout != "" {
			res.violate("C20", "quiet-prints-nothing", sig, "act%d %v printed %q on stdout", ai, a.Args, short(obs.Stdout, 200))
			return true
		}
		res.count("probe:quiet_run_checked")
		return false
	}
	if !js {
		return false
	}
	if quiet {
		// --quiet and --json together: printing nothing is fine (quiet wins), and so is printing the
		// report (json wins) — but a report that is printed must be a faithful one
		res.count("accept_either:quiet_with_json")
		if strings.TrimSpace(obs.Stdout) == "" {
			return false
		}
	}
	var jr []jsonResult
	dec := json.NewDecoder(strings.NewReader(obs.Stdout))
	if err := dec.Decode(&jr); err != nil {
		res.violate("C20", "json-is-one-document", sig, "act%d: stdout of --json does not start with a JSON document (%v): %q", ai, err, short(obs.Stdout, 300))
		return true
	}
	rest := obs.Stdout[dec.InputOffset():]
	if strings.TrimSpace(rest) != "" {
		res.violate("C20", "json-is-one-document", sig, "act%d: stdout of --json has extra text after the JSON document: %q", ai, short(rest, 200))
		return true
	}
	if strings.TrimSpace(obs.Stdout[:strings.Index(obs.Stdout, "[")+1]) != "[" {
		res.violate("C20", "json-is-one-document", sig, "act%d: stdout of --json has text before the JSON document: %q", ai, short(obs.Stdout, 200))
		return true
	}
	// exactly the closure, each once
	listed := map[string]int{}
	var order []string
	for _, r := range jr {
		listed[r.Task]++
		order = append(order, r.Task)
	}
	for _, n := range closure {
		if listed[n] != 1 {
			res.violate("C20", "json-lists-exactly-the-run", sig, "act%d: task %s of the run appears %d times in the report %v", ai, n, listed[n], order)
			return true
		}
	}
	if len(jr) != len(closure) {
		res.violate("C20", "json-lists-exactly-the-run", sig, "act%d: report lists %v, the run consists of %v", ai, order, closure)
		return true
	}
	// execution order: executed tasks in the order of their first markers; dependency order for all
	var execOrder []string
	for _, n := range order {
		if len(v.markers[n]) > 0 {
			execOrder = append(execOrder, n)
		}
	}
	if strings.Join(execOrder, ",") != strings.Join(v.order, ",") {
		res.violate("C20", "json-in-execution-order", sig, "act%d: report order %v but the commands ran in order %v", ai, execOrder, v.order)
		return true
	}
	pos := map[string]int{}
	for i, n := range order {
		pos[n] = i
	}
	for _, n := range closure {
		for _, d := range p.Task(n).Deps {
			if d.Kind == "task" && pos[d.Value] > pos[n] {
				res.violate("C20", "json-in-execution-order", sig, "act%d: report lists %s before its dependency %s", ai, n, d.Value)
				return true
			}
		}
	}
	nrun, nskip := 0, 0
	for _, r := range jr {
		t := p.Task(r.Task)
		ran := len(v.markers[r.Task]) > 0
		if t.NCmd > 0 && r.Skipped == ran {
			res.violate("C20", "json-skipped-flag-is-true-to-the-run", sig, "act%d: task %s reported skipped=%v but its commands ran=%v", ai, r.Task, r.Skipped, ran)
			return true
		}
		if t.NCmd == 0 && r.Skipped && (!t.HasFileDeps() || hasFlag(a.Args, "--force")) {
			// a task without commands leaves no marker, but it cannot have been skipped as up to date
			// when it has no file dependencies or the run was forced
			res.violate("C20", "json-skipped-flag-is-true-to-the-run", sig, "act%d: task %s (no commands, file deps=%v, force=%v) is reported skipped although it cannot be up to date", ai, r.Task, t.HasFileDeps(), hasFlag(a.Args, "--force"))
			return true
		}
		if t.NCmd == 0 {
			res.count("probe:task_without_commands_in_report")
		}
		if r.Skipped {
			nskip++
			if len(r.Results) != 0 {
				res.violate("C20", "json-skipped-flag-is-true-to-the-run", sig, "act%d: skipped task %s carries command results", ai, r.Task)
				return true
			}
			continue
		}
		nrun++
		if len(r.Results) != t.NCmd+len(t.Raw) {
			res.violate("C20", "json-reports-every-command", sig, "act%d: task %s has %d commands, the report has %d results", ai, r.Task, t.NCmd+len(t.Raw), len(r.Results))
			return true
		}
		for i, cr := range r.Results {
			if i >= t.NCmd {
				raw := t.Raw[i-t.NCmd]
				arg := strings.TrimPrefix(raw, "echo ")
				want := strings.Join(strings.Fields(arg), " ") + "\n"
				if len(arg) >= 2 && strings.HasPrefix(arg, "'") && strings.HasSuffix(arg, "'") {
					want = arg[1:len(arg)-1] + "\n" // one single-quoted word: the shell removes the quotes, nothing else
				}
				if cr.Cmd != raw || cr.Stdout != want || cr.Stderr != "" || cr.Status != 0 {
					res.violate("C20", "json-reports-every-command", sig, "act%d: task %s command %q reported as cmd=%q stdout=%q stderr=%q status=%d; it prints %q", ai, r.Task, raw, cr.Cmd, cr.Stdout, cr.Stderr, cr.Status, want)
					return true
				}
				res.count("probe:raw_command_with_percent_checked")
				continue
			}
			if cr.Cmd != StdCmd(t.Name, i) || cr.Stdout != fmt.Sprintf("OUT_%s_%d\n", t.Name, i) || cr.Stderr != fmt.Sprintf("ERR_%s_%d\n", t.Name, i) || cr.Status != 0 {
				res.violate("C20", "json-reports-every-command", sig, "act%d: task %s command %d reported as cmd=%q stdout=%q stderr=%q status=%d; it is %q and printed OUT_%s_%d / ERR_%s_%d with status 0", ai, r.Task, i, cr.Cmd, cr.Stdout, cr.Stderr, cr.Status, StdCmd(t.Name, i), t.Name, i, t.Name, i)
				return true
			}
		}
	}
	res.count("probe:json_report_checked")
	if nskip > 0 {
		res.count("probe:json_report_with_skipped_task")
	}
	docs := 0
	for _, t := range p.Tasks {
		if t.Doc != "" {
			docs++
		}
	}
	res.distinct(fmt.Sprintf("%v|run%d|skip%d|default%v|docs%d/%d", flagsOnly(a.Args), nrun, nskip, p.Task("default") != nil, docs, len(p.Tasks)))
	return false
}

func skippable(t *TaskDef) bool { return t.HasFileDeps() }

func (actScen) Shrinks(cc any) []any {
	c := cc.(*ActCase)
	var out []any
	add := func(f func(n *ActCase)) {
		n := cloneJSON(*c)
		f(&n)
		out = append(out, &n)
	}
	for i := range c.Actions {
		if len(c.Actions) > 1 {
			add(func(n *ActCase) { n.Actions = append(n.Actions[:i:i], n.Actions[i+1:]...) })
		}
	}
	for ti := range c.Prog.Tasks {
		if len(c.Prog.Tasks) > 1 {
			name := c.Prog.Tasks[ti].Name
			add(func(n *ActCase) {
				tmp := &CHCase{Prog: n.Prog}
				dropTask(tmp, name)
				n.Prog = tmp.Prog
				for ai := range n.Actions {
					var args []string
					for _, a := range n.Actions[ai].Args {
						if a != name {
							args = append(args, a)
						}
					}
					n.Actions[ai].Args = args
				}
			})
		}
		for di := range c.Prog.Tasks[ti].Deps {
			add(func(n *ActCase) {
				d := n.Prog.Tasks[ti].Deps
				n.Prog.Tasks[ti].Deps = append(d[:di:di], d[di+1:]...)
			})
		}
		if c.Prog.Tasks[ti].NCmd > 1 {
			add(func(n *ActCase) { n.Prog.Tasks[ti].NCmd = 1 })
		}
		if len(c.Prog.Tasks[ti].Outs) > 0 {
			add(func(n *ActCase) { n.Prog.Tasks[ti].Outs = nil })
		}
	}
	for vi := range c.Prog.Vars {
		add(func(n *ActCase) { n.Prog.Vars = append(n.Prog.Vars[:vi:vi], n.Prog.Vars[vi+1:]...) })
	}
	for ai, a := range c.Actions {
		if a.Cwd != "" {
			add(func(n *ActCase) { n.Actions[ai].Cwd = "" })
		}
		for k := range a.Args {
			if len(a.Args) > 1 {
				add(func(n *ActCase) { n.Actions[ai].Args = append(n.Actions[ai].Args[:k:k], n.Actions[ai].Args[k+1:]...) })
			}
		}
	}
	for _, f := range sortedKeys(c.Tree) {
		if f != "a.txt" && f != "b.txt" {
			add(func(n *ActCase) { delete(n.Tree, f) })
		}
	}
	if c.Sched.Policy != "fifo" {
		add(func(n *ActCase) { n.Sched = Sched{Policy: "fifo"} })
	}
	if c.Prog.Layout != 0 {
		add(func(n *ActCase) { n.Prog.Layout = 0 })
	}
	if c.Symlink {
		add(func(n *ActCase) { n.Symlink = false })
	}
	return out
}

// tableFields splits a line of a listing into words, dropping fields that are only
// table punctuation (column separators, rules).
func tableFields(l string) []string {
	var out []string
	for _, f := range strings.Fields(l) {
		if strings.Trim(f, "|│─-+:=") == "" && f != "=" {
			continue
		}
		out = append(out, f)
	}
	return out
}
