package spoksim

import (
	"fmt"
	"path"
	"sort"
	"strings"
)

// ---------------------------------------------------------------- abstract program

// VarDef is a global variable of the abstract program.
type VarDef struct {
	Name string   `json:"name"`
	Kind string   `json:"kind"` // str | join | exec
	Args []string `json:"args"` // str: [value]; join: parts; exec: [command]
}

// Dep is one dependency of a task.
type Dep struct {
	Kind  string `json:"kind"` // file | glob | task
	Value string `json:"value"`
}

// Out is one declared output of a task.
type Out struct {
	Kind  string `json:"kind"` // file | glob | named
	Value string `json:"value"`
}

// TaskDef is a task of the abstract program. Commands are either the
// standard instrumented command (Raw == "") or raw text.
type TaskDef struct {
	Name string   `json:"name"`
	Doc  string   `json:"doc,omitempty"`
	Deps []Dep    `json:"deps,omitempty"`
	Outs []Out    `json:"outs,omitempty"`
	NCmd int      `json:"ncmd"`
	Raw  []string `json:"raw,omitempty"` // extra raw command lines appended after the standard ones
	// Writes are files this task's first commands (over)write: a code generator or
	// formatter whose outputs are other tasks' inputs. Content has no spaces.
	Writes []FileWrite `json:"writes,omitempty"`
}

// FileWrite is one file a task writes when it runs: `echo <content> > $PROJ/<path>`.
type FileWrite struct {
	Path    string `json:"path"`
	Content string `json:"content"`
}

// Disk is the content the write leaves on disk.
func (f FileWrite) Disk() string { return f.Content + "\n" }

// Program is what a spokfile is rendered from.
type Program struct {
	Vars   []VarDef  `json:"vars,omitempty"`
	Tasks  []TaskDef `json:"tasks"`
	Layout int       `json:"layout,omitempty"`
	// Seq: the statements of a standard command are separated by ";" instead of "&&": the command then
	// relies on the shell's errexit behaviour (spok runs every command with `set -e`) to fail when its
	// control script returns non-zero without calling exit
	Seq bool `json:"seq,omitempty"`
}

// StdCmd is the text of the i-th standard command of task t: it appends a
// marker to the side-effect log (ground truth that it started), sources its
// control script (whose content — `true` or `exit N` — the simulator rewrites
// between invocations) and prints distinct markers on stdout and stderr.
func StdCmd(t string, i int) string {
	return fmt.Sprintf("echo %s.%d >> $LOG && source $CTL/%s_%d && echo OUT_%s_%d && echo ERR_%s_%d >&2", t, i, t, i, t, i, t, i)
}

// StdCmdSeq is StdCmd with ";" between the statements.
func StdCmdSeq(t string, i int) string {
	return fmt.Sprintf("echo %s.%d >> $LOG; source $CTL/%s_%d; echo OUT_%s_%d; echo ERR_%s_%d >&2", t, i, t, i, t, i, t, i)
}

// Cmd is the text of the i-th standard command of task t in program p.
func (p *Program) Cmd(t string, i int) string {
	if p.Seq {
		return StdCmdSeq(t, i)
	}
	return StdCmd(t, i)
}

// bigText is what the marker {BIG} stands for in variable values, file contents and exec arguments of a case:
// a run of 70000 characters (longer than the 64 KiB default token limit of bufio.Scanner, a pipe buffer, ...).
// Cases carry the marker, not the text.
var bigText = strings.Repeat("x", 70000)

func expandBig(s string) string { return strings.ReplaceAll(s, "{BIG}", bigText) }

// Render writes the program as spokfile text (LF only) in one of a few layouts.
func (p *Program) Render() string {
	var b strings.Builder
	ind := "    "
	if p.Layout%3 == 1 {
		ind = "\t"
	}
	for _, v := range p.Vars {
		switch v.Kind {
		case "str":
			// the value is exactly the text between the quotes: no escaping (values contain no double quote)
			fmt.Fprintf(&b, "%s := \"%s\"\n", v.Name, expandBig(v.Args[0]))
		default:
			q := make([]string, len(v.Args))
			for i, a := range v.Args {
				q[i] = `"` + expandBig(a) + `"`
			}
			fmt.Fprintf(&b, "%s := %s(%s)\n", v.Name, v.Kind, strings.Join(q, ", "))
		}
	}
	if len(p.Vars) > 0 {
		b.WriteString("\n")
	}
	for _, t := range p.Tasks {
		if t.Doc != "" {
			fmt.Fprintf(&b, "# %s\n", t.Doc)
		}
		var deps []string
		for _, d := range t.Deps {
			if d.Kind == "task" {
				deps = append(deps, d.Value)
			} else {
				deps = append(deps, `"`+d.Value+`"`)
			}
		}
		sep := ", "
		if p.Layout%2 == 1 {
			sep = ","
		}
		fmt.Fprintf(&b, "task %s(%s)", t.Name, strings.Join(deps, sep))
		if len(t.Outs) > 0 {
			var outs []string
			for _, o := range t.Outs {
				if o.Kind == "named" {
					outs = append(outs, o.Value)
				} else {
					outs = append(outs, `"`+o.Value+`"`)
				}
			}
			if len(outs) == 1 && p.Layout%2 == 0 {
				fmt.Fprintf(&b, " -> %s", outs[0])
			} else {
				fmt.Fprintf(&b, " -> (%s)", strings.Join(outs, sep))
			}
		}
		b.WriteString(" {\n")
		for _, fw := range t.Writes {
			fmt.Fprintf(&b, "%secho %s > $PROJ/%s\n", ind, fw.Content, fw.Path)
		}
		for i := 0; i < t.NCmd; i++ {
			b.WriteString(ind + p.Cmd(t.Name, i) + "\n")
		}
		for _, r := range t.Raw {
			b.WriteString(ind + r + "\n")
		}
		b.WriteString("}\n\n")
	}
	return b.String()
}

// Task returns the task named n.
func (p *Program) Task(n string) *TaskDef {
	for i := range p.Tasks {
		if p.Tasks[i].Name == n {
			return &p.Tasks[i]
		}
	}
	return nil
}

// Closure returns the requested tasks plus everything reachable over task
// dependencies, sorted by name; ok is false if a name is undefined.
func (p *Program) Closure(req []string) (names []string, ok bool) {
	seen := map[string]bool{}
	ok = true
	var visit func(n string)
	visit = func(n string) {
		if seen[n] {
			return
		}
		t := p.Task(n)
		if t == nil {
			ok = false
			return
		}
		seen[n] = true
		for _, d := range t.Deps {
			if d.Kind == "task" {
				visit(d.Value)
			}
		}
	}
	for _, r := range req {
		visit(r)
	}
	for n := range seen {
		names = append(names, n)
	}
	sort.Strings(names)
	return names, ok
}

// HasCycle reports whether the subgraph induced by names contains a cycle
// (self-loops included).
func (p *Program) HasCycle(names []string) bool {
	in := map[string]bool{}
	for _, n := range names {
		in[n] = true
	}
	state := map[string]int{}
	var dfs func(n string) bool
	dfs = func(n string) bool {
		state[n] = 1
		for _, d := range p.Task(n).Deps {
			if d.Kind != "task" || !in[d.Value] {
				continue
			}
			switch state[d.Value] {
			case 1:
				return true
			case 0:
				if dfs(d.Value) {
					return true
				}
			}
		}
		state[n] = 2
		return false
	}
	for _, n := range names {
		if state[n] == 0 && dfs(n) {
			return true
		}
	}
	return false
}

// ---------------------------------------------------------------- reference glob matcher

// segMatch matches one path segment against one pattern segment with `*`
// (any run of characters within the segment) and {a,b} alternation.
func segMatch(pat, s string) bool {
	// expand the first alternation, if any
	if i := strings.IndexByte(pat, '{'); i >= 0 {
		if j := strings.IndexByte(pat[i:], '}'); j > 0 {
			j += i
			for _, alt := range strings.Split(pat[i+1:j], ",") {
				if segMatch(pat[:i]+alt+pat[j+1:], s) {
					return true
				}
			}
			return false
		}
	}
	// `*` matching by simple backtracking
	if pat == "" {
		return s == ""
	}
	if pat[0] == '*' {
		for k := 0; k <= len(s); k++ {
			if segMatch(pat[1:], s[k:]) {
				return true
			}
		}
		return false
	}
	if s == "" || pat[0] != s[0] {
		return false
	}
	return segMatch(pat[1:], s[1:])
}

func segsMatch(pat, segs []string) bool {
	if len(pat) == 0 {
		return len(segs) == 0
	}
	if pat[0] == "**" {
		for k := 0; k <= len(segs); k++ {
			if segsMatch(pat[1:], segs[k:]) {
				return true
			}
		}
		return false
	}
	if len(segs) == 0 {
		return false
	}
	return segMatch(pat[0], segs[0]) && segsMatch(pat[1:], segs[1:])
}

// splitAlts expands a top-level {a,b} alternation that spans path separators.
func splitAlts(pattern string) []string {
	i := strings.IndexByte(pattern, '{')
	if i < 0 {
		return []string{pattern}
	}
	j := strings.IndexByte(pattern[i:], '}')
	if j < 0 {
		return []string{pattern}
	}
	j += i
	var out []string
	for _, alt := range strings.Split(pattern[i+1:j], ",") {
		out = append(out, splitAlts(pattern[:i]+alt+pattern[j+1:])...)
	}
	return out
}

// GlobMatch reports whether slash-separated relative path rel matches pattern.
func GlobMatch(pattern, rel string) bool {
	// "./src/*.go" and "src/./*.go" name the same files as "src/*.go"
	pattern = path.Clean(pattern)
	for _, p := range splitAlts(pattern) {
		if segsMatch(strings.Split(p, "/"), strings.Split(rel, "/")) {
			return true
		}
	}
	return false
}

// RefGlob is the independent reference: every regular file of the model disk
// whose relative path matches and does not begin with a dot.
func RefGlob(disk map[string]string, pattern string) []string {
	var out []string
	for rel := range disk {
		if strings.HasPrefix(rel, ".") {
			continue
		}
		if GlobMatch(pattern, rel) {
			out = append(out, rel)
		}
	}
	sort.Strings(out)
	return out
}

// ---------------------------------------------------------------- inputs

// Inputs is the model's notion of what a task depends on: the multiset of
// (relative path, content) of the regular files named by its literal and glob
// dependencies, rendered canonically. missing lists literal dependencies
// that do not exist (spok must fail on those).
func Inputs(p *Program, t *TaskDef, disk map[string]string) (canon string, nfiles int, missing []string) {
	var items []string
	seen := map[string]bool{}
	for _, d := range t.Deps {
		switch d.Kind {
		case "file":
			rel := path.Clean(d.Value)
			c, ok := disk[rel]
			if !ok {
				if !isModelDir(disk, rel) {
					missing = append(missing, rel)
				}
				continue
			}
			item := fmt.Sprintf("%q=%q", rel, c)
			if !seen[item] {
				seen[item] = true
				items = append(items, item)
			}
		case "glob":
			for _, rel := range RefGlob(disk, d.Value) {
				item := fmt.Sprintf("%q=%q", rel, disk[rel])
				if !seen[item] {
					seen[item] = true
					items = append(items, item)
				}
			}
		}
	}
	sort.Strings(items)
	return strings.Join(items, ","), len(items), missing
}

func isModelDir(disk map[string]string, rel string) bool {
	for p := range disk {
		if strings.HasPrefix(p, rel+"/") {
			return true
		}
	}
	return false
}

// HasFileDeps reports whether t declares any file or glob dependency.
func (t *TaskDef) HasFileDeps() bool {
	for _, d := range t.Deps {
		if d.Kind != "task" {
			return true
		}
	}
	return false
}
