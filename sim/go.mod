module verifsim

go 1.26

require (
	github.com/FollowTheProcess/collections v0.10.0
	github.com/FollowTheProcess/spok v0.0.0
	golang.org/x/sys v0.26.0
)

require (
	github.com/FollowTheProcess/cli v0.8.1 // indirect
	github.com/FollowTheProcess/msg v1.2.0 // indirect
	github.com/bmatcuk/doublestar/v4 v4.7.1 // indirect
	github.com/fatih/color v1.18.0 // indirect
	github.com/joho/godotenv v1.5.1 // indirect
	github.com/juju/ansiterm v1.0.0 // indirect
	github.com/lithammer/fuzzysearch v1.1.8 // indirect
	github.com/lunixbochs/vtclean v1.0.0 // indirect
	github.com/mattn/go-colorable v0.1.13 // indirect
	github.com/mattn/go-isatty v0.0.20 // indirect
	github.com/muesli/cancelreader v0.2.2 // indirect
	go.uber.org/multierr v1.11.0 // indirect
	go.uber.org/zap v1.27.0 // indirect
	golang.org/x/exp v0.0.0-20241009180824-f66d83c29e7c // indirect
	golang.org/x/sync v0.8.0 // indirect
	golang.org/x/term v0.25.0 // indirect
	golang.org/x/text v0.19.0 // indirect
	mvdan.cc/sh/v3 v3.10.0 // indirect
)

replace github.com/FollowTheProcess/spok => /repo

replace github.com/FollowTheProcess/collections => ./third_party/collections
