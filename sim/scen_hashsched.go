package spoksim

import (
	"bytes"
	"encoding/json"
	"fmt"
	"os"
	"path/filepath"
	"runtime"
	"sort"
	"strings"
	"sync/atomic"
	"time"

	"github.com/FollowTheProcess/spok/hash"
	"github.com/FollowTheProcess/spok/simhook"
)

// ---------------------------------------------------------------- case

// HEntry is one path of the simulated disk for hashsched.
type HEntry struct {
	Path    string `json:"path"`
	Kind    string `json:"kind"` // file | dir | dangling   (a path not on the disk at all is "missing")
	Content string `json:"content,omitempty"`
}

// HFault is one injected fault.
type HFault struct {
	Kind  string `json:"kind"` // unlink | open | read
	Path  string `json:"path"`
	Errno string `json:"errno,omitempty"`
	Step  int    `json:"step"` // unlink: scheduler step at which the simulator removes the file; -1 = every step of the dry run in turn
}

// HVariant is a re-run of the same multiset that must give the same digest.
type HVariant struct {
	Order    []int `json:"order"` // permutation of list positions
	Sched    Sched `json:"sched"`
	DropDirs bool  `json:"drop_dirs,omitempty"`
}

// HEdit is a neighbouring case whose digest must differ (when the file sets differ).
type HEdit struct {
	Kind    string   `json:"kind"` // edit | rename | add | remove | swap | replace
	A       string   `json:"a,omitempty"`
	B       string   `json:"b,omitempty"`
	Content string   `json:"content,omitempty"`
	Disk    []HEntry `json:"disk,omitempty"` // replace
	List    []string `json:"list,omitempty"` // replace
}

// HashCase is one case of scenario hashsched.
type HashCase struct {
	Disk     []HEntry   `json:"disk"`
	List     []string   `json:"list"`
	Big      int        `json:"big,omitempty"` // >0: the list is the regular files of Disk cycled up to Big entries
	Sched    Sched      `json:"sched"`
	Variants []HVariant `json:"variants,omitempty"`
	Edits    []HEdit    `json:"edits,omitempty"`
	Faults   []HFault   `json:"faults,omitempty"`
}

type hashsched struct{}

func init() { register(hashsched{}) }

func (hashsched) Name() string    { return "hashsched" }
func (hashsched) Props() []string { return []string{"C04", "C18"} }

func (hashsched) Decode(raw json.RawMessage) (any, error) {
	var c HashCase
	err := json.Unmarshal(raw, &c)
	return &c, err
}

func (hashsched) Rule(prop string) string {
	if prop == "C04" {
		return "case = a list over a confusable path universe (a, ab, b, a.b, d/a, d/ab, d/e/a, empty files, directories, fillers; sizes around the worker-count boundary, duplicates) hashed by the real hash.New().Hash under the seeded scheduler, re-hashed under other permutations/schedules/without directory entries (must be equal) and after single edits edit/rename/add/remove/swap/replace (must differ when the file sets differ). distinct_nontrivial = number of distinct scheduler traces (sequences of released (site,detail) pairs) over all hash calls with >= 2 entries."
	}
	return "case = a list (sizes 0..4*NumCPU, one 10^4 case per batch in thorough, duplicates, directories) with faults: never-existing path, dangling symlink, file unlinked by the simulator at a chosen scheduler step (thorough: every step of the dry-run trace), injected ENOENT/EACCES/EMFILE/EIO at open, EIO mid-read; lists of size <= 6 enumerate every position x fault kind. Oracle: returns, no panic, no deadlock, no leak, step budget, unreadable => error and no digest, readable => digest. distinct_nontrivial = distinct (list size, fault kind, position, unlink step class or schedule trace) cells with at least one fault fired."
}

// ---------------------------------------------------------------- generation

var hsStructured = []string{"a", "ab", "b", "a.b", "d/a", "d/ab", "d/e/a", "e", "d/b"}
var hsDirs = []string{"d", "d/e", "x"}
var hsContents = []string{"", "1", "2", "a", "b", "ab", "1\n", "d/a"}

func hsFiller(i int) string { return fmt.Sprintf("f%03d", i) }

func genSched(r *Rng) Sched {
	if r.Chance(1, 6) {
		return Sched{Policy: "fifo"}
	}
	return Sched{Policy: "random", Seed: r.Uint64()}
}

func (hashsched) Gen(r *Rng, cfg GenConfig) any {
	ncpu := cfg.NumCPU
	if ncpu < 1 {
		ncpu = 1
	}
	c := &HashCase{Sched: genSched(r)}
	if cfg.Prop == "C18" {
		genC18(r, cfg, c, ncpu)
		return c
	}
	sizes := []int{0, 1, 2, 3, 4, ncpu - 1, ncpu, ncpu + 1, 2*ncpu + 1}
	n := Pick(r, sizes)
	if n < 0 {
		n = 0
	}
	if n > 36 {
		n = 36
	}
	hsFill(r, c, n, true)
	if len(c.Disk) > 0 && r.Chance(1, 6) {
		// one large periodic file (a table of 16-byte records) whose size is not a multiple of common buffer sizes
		for i := range c.Disk {
			if c.Disk[i].Kind == "file" {
				c.Disk[i].Content = fmt.Sprintf("@rep:%d:%s", Pick(r, []int{300, 2500, 5000, 6250, 9000}), "0123456789abcde\n")
				break
			}
		}
	}
	// variants: same multiset, other order / schedule / without directories
	nv := r.Range(2, 4)
	for i := 0; i < nv; i++ {
		c.Variants = append(c.Variants, HVariant{Order: r.Perm(len(c.List)), Sched: genSched(r), DropDirs: r.Chance(1, 3)})
	}
	ne := r.Range(2, 5)
	for i := 0; i < ne; i++ {
		if e, ok := hsGenEdit(r, c); ok {
			c.Edits = append(c.Edits, e)
		}
	}
	return c
}

// hsFill puts n regular files (structured names first, fillers after) on the
// disk and in the list, plus optional directories and duplicates.
func hsFill(r *Rng, c *HashCase, n int, extras bool) {
	names := Shuffled(r, hsStructured)
	if n < len(names) {
		// small lists: bias towards the confusable names
		names = names[:n]
	}
	for i := 0; len(names) < n; i++ {
		names = append(names, hsFiller(i))
	}
	dirsOnDisk := map[string]bool{}
	for _, p := range names {
		c.Disk = append(c.Disk, HEntry{Path: p, Kind: "file", Content: Pick(r, hsContents)})
		c.List = append(c.List, p)
		for d := filepath.Dir(p); d != "."; d = filepath.Dir(d) {
			dirsOnDisk[d] = true
		}
	}
	if extras {
		if r.Chance(1, 2) {
			for _, d := range Subset(r, hsDirs, 1, 2) {
				c.Disk = append(c.Disk, HEntry{Path: d, Kind: "dir"})
				c.List = append(c.List, d)
			}
		}
		if len(c.List) > 0 && r.Chance(1, 4) {
			for k := r.Range(1, 2); k > 0; k-- {
				c.List = append(c.List, Pick(r, c.List))
			}
		}
		c.List = Shuffled(r, c.List)
	}
}

func hsListedFiles(c *HashCase) []string {
	kind := map[string]string{}
	for _, e := range c.Disk {
		kind[e.Path] = e.Kind
	}
	seen := map[string]bool{}
	var out []string
	for _, p := range c.List {
		if kind[p] == "file" && !seen[p] {
			seen[p] = true
			out = append(out, p)
		}
	}
	return out
}

func hsContentOf(c *HashCase, p string) string {
	for _, e := range c.Disk {
		if e.Path == p {
			return e.Content
		}
	}
	return ""
}

func hsFreeName(r *Rng, c *HashCase) string {
	used := map[string]bool{}
	for _, e := range c.Disk {
		used[e.Path] = true
		// a path that has a file as a parent, or is a parent of a file, is not free
	}
	var free []string
	for _, p := range append(append([]string{}, hsStructured...), "zz", "d/zz", "a.c") {
		if !used[p] {
			free = append(free, p)
		}
	}
	if len(free) == 0 {
		return "zzz"
	}
	return Pick(r, free)
}

func hsGenEdit(r *Rng, c *HashCase) (HEdit, bool) {
	files := hsListedFiles(c)
	switch k := r.Intn(8); {
	case k <= 1 && len(files) > 0: // edit
		p := Pick(r, files)
		old := hsContentOf(c, p)
		if strings.HasPrefix(old, "@rep:") {
			// grow a large periodic file by whole records: to the next 4 KiB / 32 KiB / 64 KiB boundary, or by one record
			var n int
			var unit string
			fmt.Sscanf(old[len("@rep:"):], "%d", &n)
			unit = old[strings.Index(old[len("@rep:"):], ":")+len("@rep:")+1:]
			size := n * len(unit)
			grow := []int{n + 1}
			for _, b := range []int{4096, 32768, 65536} {
				if next := (size/b + 1) * b; next%len(unit) == 0 {
					grow = append(grow, next/len(unit))
				}
			}
			return HEdit{Kind: "edit", A: p, Content: fmt.Sprintf("@rep:%d:%s", Pick(r, grow), unit)}, true
		}
		nc := Pick(r, hsContents)
		if nc == old {
			nc = old + "x"
		}
		return HEdit{Kind: "edit", A: p, Content: nc}, true
	case k == 2 && len(files) > 0: // rename
		return HEdit{Kind: "rename", A: Pick(r, files), B: hsFreeName(r, c)}, true
	case k == 3: // add (possibly an empty file)
		return HEdit{Kind: "add", A: hsFreeName(r, c), Content: Pick(r, hsContents)}, true
	case k == 4 && len(files) > 0: // remove
		return HEdit{Kind: "remove", A: Pick(r, files)}, true
	case k == 5 && len(files) >= 2: // swap contents of two files
		a, b := Pick(r, files), Pick(r, files)
		if a != b && hsContentOf(c, a) != hsContentOf(c, b) {
			return HEdit{Kind: "swap", A: a, B: b}, true
		}
		return HEdit{}, false
	default: // replace by an unrelated small list over the confusable names
		o := &HashCase{}
		hsFill(r, o, r.Range(0, 3), false)
		if o.List == nil {
			o.List = []string{}
		}
		return HEdit{Kind: "replace", Disk: o.Disk, List: o.List}, true
	}
}

var hsFaultKinds = []string{"missing", "dangling", "unlink", "open-ENOENT", "open-EACCES", "open-EMFILE", "open-EIO", "read-EIO"}

func genC18(r *Rng, cfg GenConfig, c *HashCase, ncpu int) {
	thorough := cfg.Tier == "thorough"
	// systematic cells first: list size L in 1..6, every position, every fault kind
	cells := 0
	for L := 1; L <= 6; L++ {
		cells += L * len(hsFaultKinds)
	}
	if int(cfg.Idx) < cells {
		k := int(cfg.Idx)
		for L := 1; L <= 6; L++ {
			if k < L*len(hsFaultKinds) {
				pos, kind := k/len(hsFaultKinds), hsFaultKinds[k%len(hsFaultKinds)]
				hsFill(r, c, L, false)
				if r.Chance(1, 3) {
					c.Disk = append(c.Disk, HEntry{Path: "x", Kind: "dir"})
					c.List = append(c.List, "x")
				}
				hsAddFault(r, c, kind, c.List[pos], -1)
				return
			}
			k -= L * len(hsFaultKinds)
		}
	}
	if int(cfg.Idx) == cells {
		// the list of thousands (10^4 in the thorough tier), fifo policy to bound its cost
		hsFill(r, c, 150, false)
		c.Big = 5000
		if thorough {
			c.Big = 10000
		}
		c.Sched = Sched{Policy: "fifo"}
		return
	}
	sizes := []int{0, 1, 2, 3, 5, ncpu - 1, ncpu, ncpu + 1, 2 * ncpu, 4 * ncpu}
	if thorough {
		sizes = append(sizes, 8*ncpu+1, 100, 257)
	}
	n := Pick(r, sizes)
	if n < 0 {
		n = 0
	}
	hsFill(r, c, n, true)
	nf := Pick(r, []int{0, 1, 1, 1, 2})
	for i := 0; i < nf && len(c.List) > 0; i++ {
		step := r.Intn(8 * (len(c.List) + 2))
		hsAddFault(r, c, Pick(r, hsFaultKinds), Pick(r, c.List), step)
	}
}

// hsAddFault makes entry p of the list faulty.
func hsAddFault(r *Rng, c *HashCase, kind, p string, step int) {
	isFile := false
	for _, e := range c.Disk {
		if e.Path == p && e.Kind == "file" {
			isFile = true
		}
	}
	if !isFile {
		return // only regular files are made faulty; directories stay as they are
	}
	switch {
	case kind == "missing":
		// remove from the disk, keep in the list
		var d []HEntry
		for _, e := range c.Disk {
			if e.Path != p {
				d = append(d, e)
			}
		}
		c.Disk = d
	case kind == "dangling":
		for i := range c.Disk {
			if c.Disk[i].Path == p {
				c.Disk[i].Kind = "dangling"
				c.Disk[i].Content = ""
			}
		}
	case kind == "unlink":
		c.Faults = append(c.Faults, HFault{Kind: "unlink", Path: p, Step: step})
	case strings.HasPrefix(kind, "open-"):
		c.Faults = append(c.Faults, HFault{Kind: "open", Path: p, Errno: strings.TrimPrefix(kind, "open-")})
	case strings.HasPrefix(kind, "read-"):
		c.Faults = append(c.Faults, HFault{Kind: "read", Path: p, Errno: strings.TrimPrefix(kind, "read-")})
	}
}

// ---------------------------------------------------------------- execution

type hashObs struct {
	picks  []int
	digest string
	err    error
	out    RunOutcome
	trace  []string
	steps  int
	fired  []string
	// for unlink classification
	unlinkClasses []string // per fired unlink: "before-open", "after-read", "during"
}

func (w *World) corpus() string { return filepath.Join(w.Root, "hc") }

// hsExpand turns a content descriptor into the bytes on disk: "@rep:<n>:<unit>" is <unit> repeated <n>
// times (large, periodic files: fixed-width record tables, padding), anything else is literal.
func hsExpand(content string) string {
	if strings.HasPrefix(content, "@rep:") {
		rest := content[len("@rep:"):]
		if i := strings.IndexByte(rest, ':'); i > 0 {
			n := 0
			fmt.Sscanf(rest[:i], "%d", &n)
			return strings.Repeat(rest[i+1:], n)
		}
	}
	return content
}

func (w *World) hsMaterialise(disk []HEntry) {
	root := w.corpus()
	must(os.RemoveAll(root))
	must(os.MkdirAll(root, 0o755))
	for _, e := range disk {
		full := filepath.Join(root, filepath.FromSlash(e.Path))
		switch e.Kind {
		case "dir":
			must(os.MkdirAll(full, 0o755))
		case "dangling":
			must(os.MkdirAll(filepath.Dir(full), 0o755))
			must(os.Symlink(filepath.Join(root, "nowhere", "gone"), full))
		default:
			writeFile(full, hsExpand(e.Content))
			// every file carries the same modification time, as after `cp -p`, `touch -r`, a checkout that
			// restores timestamps or on a file system with a coarse clock: (path, size, mtime) does not
			// identify content
			must(os.Chtimes(full, hsEpoch, hsEpoch))
		}
	}
}

// hsEpoch lies before the start of the bubble's clock (2000-01-01): files carrying it are old, not "from the future"
var hsEpoch = time.Date(1999, 2, 3, 4, 5, 6, 0, time.UTC)

func (w *World) hsAbs(list []string) []string {
	out := make([]string, len(list))
	for i, p := range list {
		out[i] = filepath.Join(w.corpus(), filepath.FromSlash(p))
	}
	return out
}

// hashOnce runs the real concurrent hasher over files under the seeded scheduler.
func (w *World) hashOnce(files []string, sched Sched, inv int, faults []HFault, unlinkStep int) hashObs {
	var o hashObs
	ch := NewChooser(sched, inv)
	workers := w.NumCPU
	if workers < 1 {
		workers = 1
	}
	// livelock budget: today every file causes at most 5 yields; 16 per file leaves room for a
	// restructured pool with more hand-offs per file without turning the budget into a false alarm
	s := &Scheduler{ch: ch, Budget: 16*len(files) + 8*workers + 64}
	f := NoFaults()
	f.OpenErr, f.ReadErr = map[string]string{}, map[string]string{}
	var unlinks []HFault
	for _, ft := range faults {
		abs := filepath.Join(w.corpus(), filepath.FromSlash(ft.Path))
		switch ft.Kind {
		case "open":
			f.OpenErr[abs] = ft.Errno
		case "read":
			f.ReadErr[abs] = ft.Errno
		case "unlink":
			u := ft
			if u.Step < 0 {
				u.Step = unlinkStep
			}
			unlinks = append(unlinks, u)
		}
	}
	h := newHookState(w, f, nil)
	s.AtStep = func(step int, parked []string) {
		for _, u := range unlinks {
			if u.Step != step {
				continue
			}
			abs := filepath.Join(w.corpus(), filepath.FromSlash(u.Path))
			// classify against what the trace proves about abs
			fed, sent := 0, 0
			for _, t := range s.Trace {
				if strings.HasPrefix(t, "hash.feed("+abs+") ") {
					fed++
				}
				if strings.HasPrefix(t, "hash.worker.send("+abs+") ") {
					sent++
				}
			}
			for _, p := range parked {
				if p == "hash.worker.send("+abs+")" {
					sent++
				}
			}
			mult := 0
			for _, x := range files {
				if x == abs {
					mult++
				}
			}
			class := "during"
			switch {
			case fed == 0:
				class = "before-open"
			case sent >= mult:
				class = "after-read"
			}
			if err := os.Remove(abs); err == nil {
				o.fired = append(o.fired, "unlink:"+class)
				o.unlinkClasses = append(o.unlinkClasses, class)
			}
		}
	}
	simhook.YieldFn = s.Yield
	simhook.OpenFn = h.open
	simhook.ReadErrFn = h.readErr
	o.out = RunBubble(w.T, s, func() {
		o.digest, o.err = hash.New().Hash(files)
	})
	uninstallHooks()
	o.trace = s.Trace
	o.picks = ch.Rec
	o.steps = s.Steps
	o.fired = append(o.fired, h.fired...)
	return o
}

// canonical forms of a (disk, list) pair
func hsCanon(disk []HEntry, list []string) (multi, set string) {
	content := map[string]string{}
	isFile := map[string]bool{}
	for _, e := range disk {
		if e.Kind == "file" {
			isFile[e.Path] = true
			content[e.Path] = e.Content
		}
	}
	var m []string
	seen := map[string]bool{}
	var st []string
	for _, p := range list {
		if !isFile[p] {
			continue
		}
		item := fmt.Sprintf("%q=%q", p, content[p])
		m = append(m, item)
		if !seen[item] {
			seen[item] = true
			st = append(st, item)
		}
	}
	sort.Strings(m)
	sort.Strings(st)
	return strings.Join(m, ","), strings.Join(st, ",")
}

func hsApplyEdit(disk []HEntry, list []string, e HEdit) ([]HEntry, []string) {
	d := append([]HEntry(nil), disk...)
	l := append([]string(nil), list...)
	switch e.Kind {
	case "edit":
		for i := range d {
			if d[i].Path == e.A {
				d[i].Content = e.Content
			}
		}
	case "rename":
		for i := range d {
			if d[i].Path == e.A {
				d[i].Path = e.B
			}
		}
		for i := range l {
			if l[i] == e.A {
				l[i] = e.B
			}
		}
	case "add":
		d = append(d, HEntry{Path: e.A, Kind: "file", Content: e.Content})
		l = append(l, e.A)
	case "remove":
		var nl []string
		for _, p := range l {
			if p != e.A {
				nl = append(nl, p)
			}
		}
		l = nl
	case "swap":
		var ca, cb string
		for _, x := range d {
			if x.Path == e.A {
				ca = x.Content
			}
			if x.Path == e.B {
				cb = x.Content
			}
		}
		for i := range d {
			if d[i].Path == e.A {
				d[i].Content = cb
			}
			if d[i].Path == e.B {
				d[i].Content = ca
			}
		}
	case "replace":
		return append([]HEntry(nil), e.Disk...), append([]string(nil), e.List...)
	}
	return d, l
}

// hsConsistent reports whether disk can be materialised (no path is both a
// file and a parent of another path).
func hsConsistent(disk []HEntry) bool {
	kind := map[string]string{}
	for _, e := range disk {
		if _, dup := kind[e.Path]; dup {
			return false
		}
		kind[e.Path] = e.Kind
	}
	for _, e := range disk {
		for d := filepath.Dir(e.Path); d != "."; d = filepath.Dir(d) {
			if k, ok := kind[d]; ok && k != "dir" {
				return false
			}
		}
	}
	return true
}

func (hashsched) Exec(w *World, cc any, prop string) *Result {
	c := cc.(*HashCase)
	res := newResult()
	if !hsConsistent(c.Disk) {
		res.count("skipped_inconsistent_case")
		return res
	}
	list := c.List
	if c.Big > 0 {
		files := hsListedFiles(c)
		list = nil
		for i := 0; len(files) > 0 && i < c.Big; i++ {
			list = append(list, files[i%len(files)])
		}
	}
	w.hsMaterialise(c.Disk)
	abs := w.hsAbs(list)
	res.event("case list=%d disk=%d faults=%d", len(list), len(c.Disk), len(c.Faults))

	inv := 0
	classes := map[string]string{}
	class := func(d string) string {
		if d == "" {
			return "-"
		}
		if _, ok := classes[d]; !ok {
			classes[d] = fmt.Sprintf("D%d", len(classes))
		}
		return classes[d]
	}
	run := func(files []string, sched Sched, faults []HFault, unlinkStep int) hashObs {
		o := w.hashOnce(files, sched, inv, faults, unlinkStep)
		inv++
		res.Ops++
		res.Steps += o.steps
		for _, f := range o.fired {
			res.count("fault_fired:" + f)
		}
		res.event("hash n=%d steps=%d digest=%s err=%v out=%s", len(files), o.steps, class(o.digest), o.err != nil, outcomeStr(o.out))
		res.event("trace %s", strings.Join(o.trace, " "))
		res.Picks = append(res.Picks, o.picks)
		if len(files) >= 2 {
			res.distinctIf(prop == "C04", "trace:"+traceHash(o.trace))
			if completionDiffers(o.trace, files) {
				res.count("probe:completion_order_differs_from_list_order")
			}
		}
		return o
	}

	// static knowledge about the list
	kind := map[string]string{}
	for _, e := range c.Disk {
		kind[e.Path] = e.Kind
	}
	staticBad := 0
	for _, p := range list {
		switch kind[p] {
		case "":
			staticBad++
			res.count("fault_present:missing")
		case "dangling":
			staticBad++
			res.count("fault_present:dangling")
		}
	}
	injected := 0
	hasUnlink := false
	enumerate := false
	inList := map[string]bool{}
	for _, p := range list {
		inList[p] = true
	}
	for _, f := range c.Faults {
		if !inList[f.Path] || kind[f.Path] != "file" {
			continue
		}
		switch f.Kind {
		case "open", "read":
			injected++
		case "unlink":
			hasUnlink = true
			if f.Step < 0 {
				enumerate = true
			}
		}
	}

	judge18 := func(o hashObs, what string) {
		sig := "hash:" + what
		switch {
		case o.out.Panic != "":
			res.violate("C18", "no-panic", sig, "%s: Hash panicked: %s", what, short(o.out.Panic, 200))
		case o.out.Deadlock:
			res.violate("C18", "no-deadlock", sig, "%s: Hash did not return and no goroutine can make progress (after %d steps)", what, o.steps)
		case o.out.Livelock:
			res.violate("C18", "step-budget", sig, "%s: more than the budgeted scheduler steps for %d entries", what, len(list))
		case o.out.Leak:
			// goroutines that were merely still running when Hash returned have been
			// drained by the scheduler; Leak means some are blocked for ever
			res.violate("C18", "no-leak", sig, "%s: goroutines left blocked for ever after Hash returned", what)
		}
		if !o.out.Returned || o.out.Panic != "" {
			return
		}
		if o.err != nil && o.digest != "" {
			res.violate("C18", "error-with-digest", sig, "%s: Hash returned both an error and a digest", what)
		}
		mustErr := staticBad > 0 || injected > 0
		mayErr := false
		for _, uc := range o.unlinkClasses {
			if uc == "before-open" {
				mustErr = true
			}
			if uc == "during" {
				mayErr = true
			}
		}
		mayErr = mayErr || mustErr
		if mustErr && o.err == nil {
			res.violate("C18", "unreadable-implies-error", sig, "%s: an entry could not be opened or read, yet Hash returned digest %.12s and no error", what, o.digest)
		}
		if !mayErr && o.err != nil {
			res.violate("C18", "readable-implies-digest", sig, "%s: every entry was readable, yet Hash returned error %v", what, o.err)
		}
		if o.err == nil && o.digest == "" {
			res.violate("C18", "digest-or-error", sig, "%s: Hash returned neither a digest nor an error", what)
		}
	}

	faultSig := func() string {
		var ks []string
		for _, f := range c.Faults {
			ks = append(ks, f.Kind+f.Errno)
		}
		if staticBad > 0 {
			ks = append(ks, "static")
		}
		sort.Strings(ks)
		return strings.Join(ks, "+")
	}

	if prop == "C18" {
		var base hashObs
		if hasUnlink {
			// dry run to learn the trace length (fault-free with respect to unlink)
			var noUnlink []HFault
			for _, f := range c.Faults {
				if f.Kind != "unlink" {
					noUnlink = append(noUnlink, f)
				}
			}
			dry := run(abs, c.Sched, noUnlink, -1)
			judge18(dry, "dry-run("+faultSig()+")")
			steps := []int{}
			if enumerate {
				for s := 0; s <= dry.steps; s++ {
					steps = append(steps, s)
				}
			} else {
				steps = append(steps, -2) // use the step stored in the fault, modulo the dry-run length
			}
			for _, st := range steps {
				w.hsMaterialise(c.Disk)
				faults := c.Faults
				if st == -2 {
					faults = nil
					for _, f := range c.Faults {
						if f.Kind == "unlink" && dry.steps > 0 {
							f.Step = f.Step % (dry.steps + 1)
						}
						faults = append(faults, f)
					}
				}
				o := run(abs, c.Sched, faults, st)
				judge18(o, "unlink("+faultSig()+")")
				for _, uc := range o.unlinkClasses {
					res.distinct(fmt.Sprintf("cell:L%d:unlink:%s:%s", len(list), uc, posOf(list, c.Faults)))
					res.count("probe:unlink_" + uc)
				}
			}
			return res
		}
		base = run(abs, c.Sched, c.Faults, -1)
		judge18(base, "run("+faultSig()+")")
		// system-level twin: the same list as the literal dependencies of a task, through the real CLI
		if len(list) > 0 && len(list) <= 6 && c.Big == 0 && res.first("C18") == nil {
			var deps []string
			ok := true
			for _, p := range list {
				if strings.ContainsAny(p, "*\"") {
					ok = false
				}
				deps = append(deps, fmt.Sprintf("%q", "../../hc/"+p))
			}
			if ok {
				writeFile(filepath.Join(w.Proj, "spokfile"), fmt.Sprintf("task HHHHHH(%s) {\n    echo ran\n}\n", strings.Join(deps, ", ")))
				f := NoFaults()
				f.OpenErr, f.ReadErr = map[string]string{}, map[string]string{}
				for _, ft := range c.Faults {
					a := filepath.Join(w.corpus(), filepath.FromSlash(ft.Path))
					if ft.Kind == "open" {
						f.OpenErr[a] = ft.Errno
					}
					if ft.Kind == "read" {
						f.ReadErr[a] = ft.Errno
					}
				}
				obs := w.Invoke(Invocation{Args: []string{"HHHHHH", "--json"}, Cwd: w.Proj, Env: w.BaseEnv(), Inv: 50, Sched: c.Sched, Faults: f})
				res.Ops++
				res.Steps += len(obs.Trace)
				res.event("cli list=%d bad=%d failed=%v out=%s", len(list), staticBad+injected, obs.Failed, outcomeStr(obs.Out))
				res.count("probe:system_level_twin")
				sig := "cli:" + faultSig()
				switch {
				case obs.Out.Panic != "":
					res.violate("C18", "no-panic", sig, "`spok T` with an unreadable dependency panicked: %s", short(obs.Out.Panic, 300))
				case obs.Out.Deadlock || obs.Out.Livelock:
					res.violate("C18", "no-deadlock", sig, "`spok T` with dependencies %v never returned", list)
				case obs.HashLeak:
					res.violate("C18", "no-leak", sig, "`spok T` left hash goroutines blocked for ever")
				case staticBad+injected > 0 && !obs.Failed:
					res.violate("C18", "unreadable-implies-error", sig, "a dependency of the task cannot be opened or read, yet `spok T` succeeded (stdout %q)", short(obs.Stdout, 200))
				case staticBad+injected > 0 && strings.TrimSpace(obs.ErrText) == "":
					res.violate("C18", "unreadable-implies-error", sig, "`spok T` failed without a message")
				case staticBad+injected == 0 && obs.Failed:
					res.violate("C18", "readable-implies-digest", sig, "every dependency is readable, yet `spok T` failed: %s", short(obs.ErrText, 300))
				}
			}
		}
		if staticBad+injected > 0 {
			res.distinct(fmt.Sprintf("cell:L%d:%s:%s:%s", len(list), faultSig(), posOf(list, c.Faults), traceHash(base.trace)))
		}
		if c.Big > 0 {
			res.count("probe:big_list")
		}
		return res
	}

	// ---- C04
	base := run(abs, c.Sched, nil, -1)
	if !base.out.Returned || base.out.Panic != "" || base.err != nil || base.out.Leak {
		res.Abandoned = "C18: the fault-free base hash did not return a digest cleanly: " + outcomeStr(base.out) + fmt.Sprint(" err=", base.err)
		return res
	}
	for vi, v := range c.Variants {
		if len(v.Order) != len(list) {
			continue
		}
		var vl []string
		for _, i := range v.Order {
			if i < 0 || i >= len(list) {
				continue
			}
			if v.DropDirs && kind[list[i]] == "dir" {
				continue
			}
			vl = append(vl, list[i])
		}
		o := run(w.hsAbs(vl), v.Sched, nil, -1)
		if !o.out.Returned || o.err != nil {
			res.Abandoned = "C18: a fault-free variant hash failed"
			return res
		}
		if o.digest != base.digest {
			what := "permutation/schedule"
			if v.DropDirs {
				what = "permutation/schedule/without-directories"
			}
			res.violate("C04", "same-files-same-digest", "variant:"+what, "variant %d (%s) of the same file multiset gave digest %.12s, base gave %.12s", vi, what, o.digest, base.digest)
		}
	}
	bm, bs := hsCanon(c.Disk, list)
	for ei, e := range c.Edits {
		d2, l2 := hsApplyEdit(c.Disk, list, e)
		if !hsConsistent(d2) {
			continue
		}
		m2, s2 := hsCanon(d2, l2)
		w.hsMaterialise(d2)
		o := run(w.hsAbs(l2), c.Sched, nil, -1)
		if !o.out.Returned || o.err != nil {
			res.Abandoned = "C18: a fault-free neighbour hash failed"
			return res
		}
		switch {
		case s2 != bs && o.digest == base.digest:
			res.violate("C04", "different-files-different-digest", "edit:"+e.Kind, "edit %d (%s %s %s) changed the file set from {%s} to {%s} but the digest stayed %.12s", ei, e.Kind, e.A, e.B, short(bs, 120), short(s2, 120), base.digest)
		case m2 == bm && o.digest != base.digest:
			res.violate("C04", "same-files-same-digest", "edit:"+e.Kind+":noop", "edit %d (%s) left the file multiset unchanged but the digest changed", ei, e.Kind)
		case s2 == bs && m2 != bm:
			res.count("accept_either:same_set_different_multiplicity")
		}
		res.count("edit:" + e.Kind)
	}
	return res
}

func (r *Result) distinctIf(cond bool, k string) {
	if cond {
		r.distinct(k)
	}
}

func posOf(list []string, faults []HFault) string {
	var ps []string
	for _, f := range faults {
		for i, p := range list {
			if p == f.Path {
				ps = append(ps, fmt.Sprint(i))
				break
			}
		}
	}
	return strings.Join(ps, ",")
}

func outcomeStr(o RunOutcome) string {
	switch {
	case o.Panic != "":
		return "panic"
	case o.Deadlock:
		return "deadlock"
	case o.Livelock:
		return "livelock"
	case o.Leak:
		return "leak"
	case o.Crash != nil:
		return "crash"
	case o.Budget != nil:
		return "budget"
	case o.Returned:
		return "returned"
	}
	return "unknown"
}

// completionDiffers reports whether the order in which results were collected
// differs from the order of the list (the "rare interleaving" probe).
func completionDiffers(trace []string, files []string) bool {
	var order []string
	for _, t := range trace {
		if strings.HasPrefix(t, "hash.collect(") {
			order = append(order, t[len("hash.collect("):strings.Index(t, ") ")])
		}
	}
	j := 0
	for _, f := range files {
		if j < len(order) && order[j] == f {
			j++
		}
	}
	return j != len(order)
}

// ---------------------------------------------------------------- shrinking

func (hashsched) Shrinks(cc any) []any {
	c := cc.(*HashCase)
	var out []any
	add := func(f func(n *HashCase)) {
		n := cloneJSON(*c)
		f(&n)
		out = append(out, &n)
	}
	if c.Big > 0 {
		for _, b := range []int{0, c.Big / 10, c.Big / 2} {
			if b < c.Big {
				add(func(n *HashCase) { n.Big = b })
			}
		}
	}
	if len(c.Variants) > 1 {
		for i := range c.Variants {
			add(func(n *HashCase) { n.Variants = []HVariant{c.Variants[i]} })
		}
	}
	if len(c.Edits) > 1 {
		for i := range c.Edits {
			add(func(n *HashCase) { n.Edits = []HEdit{c.Edits[i]} })
		}
	}
	if len(c.Edits) == 1 && len(c.Variants) > 0 {
		add(func(n *HashCase) { n.Variants = nil })
	}
	if len(c.Variants) == 1 && len(c.Edits) > 0 {
		add(func(n *HashCase) { n.Edits = nil })
	}
	if len(c.Faults) > 1 {
		for i := range c.Faults {
			add(func(n *HashCase) { n.Faults = append(append([]HFault{}, c.Faults[:i]...), c.Faults[i+1:]...) })
		}
	}
	// drop list entries (and fix variant orders)
	for i := range c.List {
		add(func(n *HashCase) {
			n.List = append(append([]string{}, c.List[:i]...), c.List[i+1:]...)
			for vi := range n.Variants {
				var o []int
				for _, x := range c.Variants[vi].Order {
					switch {
					case x == i:
					case x > i:
						o = append(o, x-1)
					default:
						o = append(o, x)
					}
				}
				n.Variants[vi].Order = o
			}
		})
	}
	// drop disk entries that are not listed and not touched by an edit
	listed := map[string]bool{}
	for _, p := range c.List {
		listed[p] = true
	}
	for i, e := range c.Disk {
		if !listed[e.Path] {
			add(func(n *HashCase) { n.Disk = append(append([]HEntry{}, c.Disk[:i]...), c.Disk[i+1:]...) })
		}
	}
	// simpler contents
	for i, e := range c.Disk {
		if e.Kind == "file" && e.Content != "" && e.Content != "1" {
			add(func(n *HashCase) { n.Disk[i].Content = "1" })
		}
	}
	// simpler schedules
	if c.Sched.Policy != "fifo" {
		add(func(n *HashCase) { n.Sched = Sched{Policy: "fifo"} })
	}
	for i, v := range c.Variants {
		if v.Sched.Policy != "fifo" {
			add(func(n *HashCase) { n.Variants[i].Sched = Sched{Policy: "fifo"} })
		}
	}
	// concrete unlink step instead of enumeration is handled by the worker after shrinking
	return out
}

// ---------------------------------------------------------------- race side mode (real scheduler, not simulated)

// hashReal runs Hash under the real Go scheduler (no yield hooks) with a
// wall-clock watchdog; used only by the -race side mode, where a serialising
// scheduler would hide data races from the detector.
func (w *World) hashReal(files []string, faults []HFault) (digest string, err error, timedOut bool, leaked int) {
	f := NoFaults()
	f.OpenErr, f.ReadErr = map[string]string{}, map[string]string{}
	for _, ft := range faults {
		abs := filepath.Join(w.corpus(), filepath.FromSlash(ft.Path))
		switch ft.Kind {
		case "open":
			f.OpenErr[abs] = ft.Errno
		case "read":
			f.ReadErr[abs] = ft.Errno
		}
	}
	// the hook variables are installed once for the whole race run (installRaceHooks) and never
	// written again: goroutines of an earlier call may still be finishing, and writing a hook
	// variable then would be a data race of the harness, not of spok
	raceFaults.Store(&f)
	before := runtime.NumGoroutine()
	done := make(chan struct{})
	go func() {
		defer close(done)
		digest, err = hash.New().Hash(files)
	}()
	select {
	case <-done:
	case <-time.After(30 * time.Second):
		return "", nil, true, 0
	}
	for i := 0; i < 200; i++ {
		if runtime.NumGoroutine() <= before {
			return digest, err, false, 0
		}
		time.Sleep(time.Duration(i+1) * 100 * time.Microsecond)
	}
	return digest, err, false, runtime.NumGoroutine() - before
}

var raceFaults atomic.Pointer[Faults]

// installRaceHooks installs fault hooks that read the current plan through an atomic pointer.
func installRaceHooks() {
	simhook.OpenFn = func(f *os.File, err error, path string) (*os.File, error) {
		if p := raceFaults.Load(); p != nil {
			if name, ok := p.OpenErr[path]; ok {
				if f != nil {
					f.Close()
				}
				return nil, &os.PathError{Op: "open", Path: path, Err: errnoByName[name]}
			}
		}
		return f, err
	}
	simhook.ReadErrFn = func(err error, path string) error {
		if p := raceFaults.Load(); p != nil {
			if name, ok := p.ReadErr[path]; ok {
				return &os.PathError{Op: "read", Path: path, Err: errnoByName[name]}
			}
		}
		return err
	}
}

// RaceExec judges one hashsched case under the real scheduler at several
// GOMAXPROCS values with reps repetitions each.
func (hashsched) RaceExec(w *World, c *HashCase, prop string, reps int) *Result {
	res := newResult()
	if !hsConsistent(c.Disk) {
		return res
	}
	list := c.List
	if c.Big > 0 {
		files := hsListedFiles(c)
		list = nil
		for i := 0; len(files) > 0 && i < c.Big; i++ {
			list = append(list, files[i%len(files)])
		}
	}
	kind := map[string]string{}
	for _, e := range c.Disk {
		kind[e.Path] = e.Kind
	}
	bad := 0
	inList := map[string]bool{}
	for _, p := range list {
		inList[p] = true
		if kind[p] == "" || kind[p] == "dangling" {
			bad++
		}
	}
	var faults []HFault
	for _, f := range c.Faults {
		if (f.Kind == "open" || f.Kind == "read") && inList[f.Path] && kind[f.Path] == "file" {
			faults = append(faults, f)
			bad++
		}
	}
	w.hsMaterialise(c.Disk)
	abs := w.hsAbs(list)
	old := runtime.GOMAXPROCS(0)
	defer runtime.GOMAXPROCS(old)
	digests := map[string]bool{}
	for _, gmp := range []int{1, 2, 4, 16} {
		runtime.GOMAXPROCS(gmp)
		for r := 0; r < reps; r++ {
			files := abs
			if r%2 == 1 && len(c.Variants) > 0 {
				v := c.Variants[(r/2)%len(c.Variants)]
				if len(v.Order) == len(abs) {
					files = nil
					for _, i := range v.Order {
						if i >= 0 && i < len(abs) {
							files = append(files, abs[i])
						}
					}
				}
			}
			d, err, timedOut, leaked := w.hashReal(files, faults)
			res.Ops++
			sig := fmt.Sprintf("race-mode:gomaxprocs=%d", gmp)
			switch {
			case timedOut:
				res.violate("C18", "no-deadlock", sig, "real scheduler, GOMAXPROCS=%d: Hash of %d entries did not return within 30 s", gmp, len(files))
				return res
			case leaked > 0:
				res.violate("C18", "no-leak", sig, "real scheduler, GOMAXPROCS=%d: %d goroutines still alive 2 s after Hash of %d entries returned", gmp, leaked, len(files))
				return res
			case bad > 0 && err == nil:
				res.violate("C18", "unreadable-implies-error", sig, "real scheduler, GOMAXPROCS=%d: an entry cannot be opened or read, yet Hash returned digest %.12s", gmp, d)
				return res
			case bad == 0 && err != nil:
				res.violate("C18", "readable-implies-digest", sig, "real scheduler, GOMAXPROCS=%d: every entry is readable, yet Hash returned %v", gmp, err)
				return res
			}
			if bad == 0 {
				digests[d] = true
			}
		}
	}
	// a large file (more than 1 MiB) listed several times next to the others, hashed, rewritten with another size and
	// hashed again in the same process: whatever a hasher remembers between calls is exercised by several workers
	// at once (races show in the detector, a fatal map error kills the process: both are reported by the driver)
	if bad == 0 && len(abs)%3 == 0 {
		big := filepath.Join(w.Proj, "large.bin")
		var seen []string
		runtime.GOMAXPROCS(16)
		for round := 0; round < 3; round++ {
			must(os.WriteFile(big, bytes.Repeat([]byte{byte('a' + round)}, 1<<20+round), 0o644))
			files := append([]string{big, big, big, big}, abs...)
			files = append(files, big, big)
			d, err, timedOut, leaked := w.hashReal(files, nil)
			res.Ops++
			if timedOut || leaked > 0 || err != nil {
				res.violate("C18", "readable-implies-digest", "race-mode:large", "real scheduler, large file listed six times: timedOut=%v leaked=%d err=%v", timedOut, leaked, err)
				return res
			}
			for _, prev := range seen {
				if prev == d {
					res.violate("C04", "different-files-different-digest", "race-mode:large", "real scheduler: a 1 MiB file was rewritten with different content and size between two Hash calls of one process, the digest stayed %.12s", d)
					return res
				}
			}
			seen = append(seen, d)
		}
		os.Remove(big)
		res.count("probe:large_file_rewritten_between_calls")
	}
	if len(digests) > 1 {
		res.violate("C04", "same-files-same-digest", "race-mode", "real scheduler: the same file multiset hashed to %d different digests across GOMAXPROCS 1/2/4/16, permutations and %d repetitions", len(digests), reps)
	}
	res.distinct(fmt.Sprintf("shape:L%d:bad%d:faults%d", len(list), bad, len(faults)))
	res.event("race-mode list=%d bad=%d digests=%d", len(list), bad, len(digests))
	return res
}

// PinSchedules makes the schedules of a (structurally minimised) case explicit: the base
// run's picks become c.Sched, the i-th variant's picks its own schedule. Only shapes in which
// every schedule is used by exactly one hash call are pinned (no edits, no unlink enumeration).
func (hashsched) PinSchedules(cc any, r *Result) (any, []*Sched) {
	c := cloneJSON(*cc.(*HashCase))
	hasUnlink := false
	for _, f := range c.Faults {
		if f.Kind == "unlink" {
			hasUnlink = true
		}
	}
	if len(c.Edits) > 0 || hasUnlink || len(r.Picks) < 1+len(c.Variants) {
		return nil, nil
	}
	var ptrs []*Sched
	c.Sched = Sched{Policy: "picks", Picks: append([]int{}, r.Picks[0]...)}
	ptrs = append(ptrs, &c.Sched)
	for i := range c.Variants {
		c.Variants[i].Sched = Sched{Policy: "picks", Picks: append([]int{}, r.Picks[1+i]...)}
		ptrs = append(ptrs, &c.Variants[i].Sched)
	}
	return &c, ptrs
}
