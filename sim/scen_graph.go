package spoksim

import (
	"encoding/json"
	"fmt"
	"path/filepath"
	"sort"
	"strings"
)

// GraphCase is one case of scenario graph (C03).
type GraphCase struct {
	Prog    Program           `json:"prog"` // may define a task twice or depend on an undefined name
	Disk    map[string]string `json:"disk,omitempty"`
	Request []string          `json:"request"`
	Fail    []string          `json:"fail,omitempty"` // "T_i" control scripts set to fail
	Runs    int               `json:"runs"`           // 1 or 2 invocations
	// ViaClean: the invocation is `spok --clean <request...>` and a task is named clean. --clean runs the user's
	// clean task; whether the named tasks run as well is not specified, but whatever runs obeys C03.
	ViaClean bool `json:"via_clean,omitempty"`
	// RunnerErr "T_i:ERRNO:times": the command runner returns an error (the command could not be started) for the
	// i-th command of T, `times` times; the run goes through SpokFile.Run with a wrapped runner (level L1)
	RunnerErr string `json:"runner_err,omitempty"`
	JSON      bool   `json:"json"`
	Sched     Sched  `json:"sched"`
}

type graphScen struct{}

func init() { register(graphScen{}) }

func (graphScen) Name() string    { return "graph" }
func (graphScen) Props() []string { return []string{"C03"} }
func (graphScen) Decode(raw json.RawMessage) (any, error) {
	var c GraphCase
	err := json.Unmarshal(raw, &c)
	return &c, err
}
func (graphScen) Rule(string) string {
	return "the first 3634 run indices enumerate EVERY (edge set incl. self-loops, non-empty request subset) for n <= 3 tasks (request order, definition order and dag order still drawn from the PRNG); after that: case = a dependency graph over n <= 4 tasks drawn from all edge sets (self-loops included; half of the runs sparse so that DAGs are common) or a sparse graph up to 8 tasks (chains, diamonds, cycle next to an independent task), a request list (any non-empty subset in random order, sometimes with repeats or an undefined name), sometimes a task defined twice or an undefined depended-on name, half the runs with one failing command, 30% with file dependencies and a second run so that skipped tasks occur; the dag iteration order is drawn from the simulator's PRNG. distinct_nontrivial = distinct (edge set, request, observed execution order) triples."
}

var grNames = []string{"AAAAAA", "BBBBBB", "CCCCCC", "DDDDDD", "EEEEEE", "FFFFFF", "GGGGGG", "HHHHHH"}

// grSystematic maps the first run indices onto every (graph, request subset) with n <= 3 tasks:
// n=1: 2 edge sets x 1 subset, n=2: 16 x 3, n=3: 512 x 7  (3634 cells); the dag order, flags and
// request order are still drawn from the PRNG, so further seeds revisit the cells with other orders.
const grSystematicCells = 2*1 + 16*3 + 512*7

func grCell(idx int) (n, mask, sub int) {
	for n = 1; n <= 3; n++ {
		cells := (1 << (n * n)) * ((1 << n) - 1)
		if idx < cells {
			return n, idx / ((1 << n) - 1), idx%((1<<n)-1) + 1
		}
		idx -= cells
	}
	return 0, 0, 0
}

func (graphScen) Gen(r *Rng, cfg GenConfig) any {
	c := &GraphCase{Sched: genSched(r), Runs: 1, JSON: r.Chance(2, 3), Disk: map[string]string{}}
	if int(cfg.Idx) < grSystematicCells {
		n, mask, sub := grCell(int(cfg.Idx))
		for i := 0; i < n; i++ {
			t := TaskDef{Name: grNames[i], NCmd: 1}
			for d := 0; d < n; d++ {
				if mask&(1<<(d*n+i)) != 0 {
					t.Deps = append(t.Deps, Dep{"task", grNames[d]})
				}
			}
			c.Prog.Tasks = append(c.Prog.Tasks, t)
		}
		c.Prog.Tasks = Shuffled(r, c.Prog.Tasks)
		for i := 0; i < n; i++ {
			if sub&(1<<i) != 0 {
				c.Request = append(c.Request, grNames[i])
			}
		}
		c.Request = Shuffled(r, c.Request)
		return c
	}
	if r.Chance(1, 400) {
		// scale: one long dependency chain (more than 100 levels), defined in random order, the last task requested
		n := Pick(r, []int{101, 120, 150})
		name := func(i int) string {
			return "T_" + string(rune('a'+i/26/26%26)) + string(rune('a'+i/26%26)) + string(rune('a'+i%26))
		}
		for i := 0; i < n; i++ {
			t := TaskDef{Name: name(i), NCmd: 1}
			if i > 0 {
				t.Deps = []Dep{{"task", name(i - 1)}}
			}
			c.Prog.Tasks = append(c.Prog.Tasks, t)
		}
		c.Prog.Tasks = Shuffled(r, c.Prog.Tasks)
		c.Request = []string{name(n - 1)}
		if r.Chance(1, 2) {
			c.Request = Shuffled(r, []string{name(n - 1), name(n / 2)})
		}
		return c
	}
	var n int
	edges := map[[2]int]bool{} // [d,t]: t depends on d
	switch k := r.Intn(10); {
	case k < 7:
		n = Pick(r, []int{1, 2, 2, 2, 3, 3, 3, 3, 4, 4, 4})
		num, den := 1, 2
		if r.Chance(1, 2) {
			num, den = 1, n+1
		}
		for d := 0; d < n; d++ {
			for t := 0; t < n; t++ {
				if r.Chance(num, den) {
					edges[[2]int{d, t}] = true
				}
			}
		}
	default:
		n = r.Range(4, 8)
		if cfg.Tier == "thorough" && r.Chance(1, 3) {
			n = 8 // grNames has 8 names; the thorough tier uses the largest graphs more often
		}
		switch r.Intn(4) {
		case 0: // chain
			for i := 0; i+1 < n; i++ {
				edges[[2]int{i, i + 1}] = true
			}
		case 1: // diamonds
			for i := 1; i < n-1; i++ {
				edges[[2]int{0, i}] = true
				edges[[2]int{i, n - 1}] = true
			}
		case 2: // a cycle next to independent tasks
			k := r.Range(1, 3)
			for i := 0; i < k; i++ {
				edges[[2]int{i, (i + 1) % k}] = true
			}
			if r.Chance(1, 2) {
				edges[[2]int{k, n - 1}] = true
			}
		default: // random DAG (edges only from lower to higher index)
			for d := 0; d < n; d++ {
				for t := d + 1; t < n; t++ {
					if r.Chance(1, 3) {
						edges[[2]int{d, t}] = true
					}
				}
			}
		}
	}
	order := r.Perm(n) // definition order in the file
	withFiles := r.Chance(3, 10)
	for _, i := range order {
		t := TaskDef{Name: grNames[i], NCmd: Pick(r, []int{1, 1, 2})}
		for d := 0; d < n; d++ {
			if edges[[2]int{d, i}] {
				t.Deps = append(t.Deps, Dep{"task", grNames[d]})
			}
		}
		if withFiles && r.Chance(2, 3) {
			f := Pick(r, []string{"a.txt", "b.txt"})
			t.Deps = append(t.Deps, Dep{"file", f})
			c.Disk[f] = "1"
		}
		t.Deps = Shuffled(r, t.Deps)
		c.Prog.Tasks = append(c.Prog.Tasks, t)
	}
	if withFiles {
		c.Runs = 2
	}
	// request list
	names := grNames[:n]
	c.Request = Shuffled(r, Subset(r, names, 1, 2))
	if len(c.Request) == 0 {
		c.Request = []string{Pick(r, names)}
	}
	if r.Chance(1, 8) {
		c.Request = append(c.Request, Pick(r, c.Request))
		c.Request = Shuffled(r, c.Request)
	}
	if r.Chance(1, 12) {
		c.Request = append(c.Request, "ZZZZZZ")
		c.Request = Shuffled(r, c.Request)
	}
	if r.Chance(1, 12) { // depended-on name undefined
		ti := r.Intn(len(c.Prog.Tasks))
		c.Prog.Tasks[ti].Deps = append(c.Prog.Tasks[ti].Deps, Dep{"task", "YYYYYY"})
	}
	if r.Chance(1, 12) { // a task defined twice
		c.Prog.Tasks = append(c.Prog.Tasks, TaskDef{Name: Pick(r, names), NCmd: 1})
	}
	if r.Chance(1, 2) {
		t := Pick(r, c.Prog.Tasks)
		c.Fail = []string{fmt.Sprintf("%s_%d", t.Name, r.Intn(t.NCmd))}
	}
	if r.Chance(1, 20) && reasonFree(c) {
		// a file dependency whose path is spelled exactly like a task this task also depends on (make style:
		// the generating task is named after its output), listed before the task dependency
		for ti := range c.Prog.Tasks {
			t := &c.Prog.Tasks[ti]
			if len(t.Deps) > 0 && t.Deps[0].Kind == "task" {
				t.Deps = append([]Dep{{"file", t.Deps[0].Value}}, t.Deps...)
				c.Disk[t.Deps[0].Value] = "1"
				break
			}
		}
	}
	if r.Chance(1, 25) && reasonFree(c) {
		// the operating system cannot start one command (once, or every time): a task gets 2-3 commands for this
		ti := r.Intn(len(c.Prog.Tasks))
		c.Prog.Tasks[ti].NCmd = r.Range(2, 3)
		c.Fail = nil
		c.RunnerErr = fmt.Sprintf("%s_%d:%s:%d", c.Prog.Tasks[ti].Name, r.Intn(c.Prog.Tasks[ti].NCmd), Pick(r, []string{"EAGAIN", "ETXTBSY", "ENOMEM", "EMFILE"}), Pick(r, []int{1, 1, 2, 99}))
		return c
	}
	if r.Chance(1, 10) && reasonFree(c) {
		// one task becomes the user's clean task and the invocation goes through --clean
		ti := r.Intn(len(c.Prog.Tasks))
		old := c.Prog.Tasks[ti].Name
		for k := range c.Prog.Tasks {
			for di := range c.Prog.Tasks[k].Deps {
				if c.Prog.Tasks[k].Deps[di].Kind == "task" && c.Prog.Tasks[k].Deps[di].Value == old {
					c.Prog.Tasks[k].Deps[di].Value = "clean"
				}
			}
		}
		for k := range c.Request {
			if c.Request[k] == old {
				c.Request[k] = "clean"
			}
		}
		for k := range c.Fail {
			c.Fail[k] = strings.Replace(c.Fail[k], old+"_", "clean_", 1)
		}
		c.Prog.Tasks[ti].Name = "clean"
		c.ViaClean = true
	}
	if r.Chance(1, 6) {
		// a global variable may share its name with a task (only duplicate TASKS are rejected);
		// its value names an existing file, an existing directory or nothing in particular
		t := Pick(r, c.Prog.Tasks)
		val := Pick(r, []string{"a.txt", "b.txt", "src", "some value"})
		if val == "a.txt" || val == "b.txt" {
			c.Disk[val] = "1"
		}
		c.Prog.Vars = append(c.Prog.Vars, VarDef{Name: t.Name, Kind: "str", Args: []string{val}})
	}
	return c
}

// reasonFree: the generated case has no deliberately invalid selection (those are judged on plain runs).
func reasonFree(c *GraphCase) bool {
	r, _ := grExpectError(&c.Prog, c.Request)
	return r == ""
}

// grExpectError reports why spok must refuse to run anything, or "".
func grExpectError(p *Program, req []string) (reason string, strict bool) {
	seen := map[string]bool{}
	for _, t := range p.Tasks {
		if seen[t.Name] {
			return "task " + t.Name + " defined twice", true
		}
		seen[t.Name] = true
	}
	// closure over defined tasks, noting undefined names
	visited := map[string]bool{}
	var undefined []string
	var visit func(n string)
	visit = func(n string) {
		if visited[n] {
			return
		}
		t := p.Task(n)
		if t == nil {
			undefined = append(undefined, n)
			return
		}
		visited[n] = true
		for _, d := range t.Deps {
			if d.Kind == "task" {
				visit(d.Value)
			}
		}
	}
	for _, q := range req {
		visit(q)
	}
	if len(undefined) > 0 {
		return "undefined task " + undefined[0] + " requested or depended upon", true
	}
	var names []string
	for n := range visited {
		names = append(names, n)
	}
	sort.Strings(names)
	if p.HasCycle(names) {
		return "dependency cycle among " + strings.Join(names, ","), true
	}
	return "", false
}

// runnerFault decodes RunnerErr.
func (c *GraphCase) runnerFault() *RunnerFault {
	parts := strings.Split(c.RunnerErr, ":")
	if len(parts) != 3 {
		return nil
	}
	k := strings.LastIndexByte(parts[0], '_')
	if k <= 0 {
		return nil
	}
	var i, times int
	fmt.Sscanf(parts[0][k+1:], "%d", &i)
	fmt.Sscanf(parts[2], "%d", &times)
	td := c.Prog.Task(parts[0][:k])
	if td == nil || i >= td.NCmd || errnoByName[parts[1]] == nil {
		return nil
	}
	return &RunnerFault{Cmd: c.Prog.Cmd(td.Name, i), Errno: parts[1], Times: times}
}

func (graphScen) Exec(w *World, cc any, prop string) *Result {
	c := cc.(*GraphCase)
	res := newResult()
	s := newProjState(w, &c.Prog, c.Disk)
	for _, f := range c.Fail {
		var t string
		var i int
		if k := strings.LastIndexByte(f, '_'); k > 0 {
			t = f[:k]
			fmt.Sscanf(f[k+1:], "%d", &i)
			if td := c.Prog.Task(t); td != nil && i < td.NCmd {
				s.setCtl(t, i, 3)
			}
		}
	}
	s.logDelta()
	edgeKey := func() string {
		var es []string
		for _, t := range c.Prog.Tasks {
			for _, d := range t.Deps {
				if d.Kind == "task" {
					es = append(es, d.Value[:1]+">"+t.Name[:1])
				}
			}
		}
		sort.Strings(es)
		return fmt.Sprintf("n%d:%s", len(c.Prog.Tasks), strings.Join(es, ","))
	}()
	reason, _ := grExpectError(&c.Prog, c.Request)
	sig := "graph"
	if reason != "" {
		sig = "graph-error"
	}
	for run := 0; run < c.Runs; run++ {
		args := append([]string{}, c.Request...)
		if c.JSON {
			args = append(args, "--json")
		}
		if c.ViaClean && c.Prog.Task("clean") != nil {
			args = append(args, "--clean")
		}
		var obs *Obs
		if rf := c.runnerFault(); rf != nil && reason == "" && !c.ViaClean && w.Level != "L3" {
			c.JSON = false // level L1 prints no report
			obs = w.InvokeRunner(c.Request, w.BaseEnv(), rf, c.Sched, run)
			for _, fd := range obs.Fired {
				res.count("fault_fired:" + fd)
			}
		} else {
			obs = w.Invoke(Invocation{Args: args, Cwd: w.Proj, Env: w.BaseEnv(), Inv: run, Sched: c.Sched, Faults: NoFaults()})
		}
		res.Ops++
		res.Steps += len(obs.Trace)
		delta := s.logDelta()
		v := s.view(delta)
		res.event("run%d %v json=%v failed=%v log=%v perms=%v", run, c.Request, c.JSON, obs.Failed, delta, obs.Perms)
		if obs.Out.Panic != "" || obs.Out.Deadlock || obs.Out.Livelock {
			res.Abandoned = "C18: invocation ended abnormally: " + outcomeStr(obs.Out) + " " + short(obs.Out.Panic, 200)
			return res
		}
		res.distinct(fmt.Sprintf("%s|%v|%v", edgeKey, c.Request, v.order))
		if len(c.Prog.Tasks) <= 3 && len(c.Fail) == 0 && c.Runs == 1 {
			rq := append([]string{}, c.Request...)
			sort.Strings(rq)
			res.distinct(fmt.Sprintf("cell:%s|%v", edgeKey, rq))
		}
		if len(obs.Perms) > 0 {
			res.count("probe:dag_permutation_drawn")
		}

		if reason != "" {
			res.count("probe:expected_error")
			if strings.HasPrefix(reason, "dependency cycle") {
				res.count("probe:cycle_in_closure")
				if len(c.Prog.Tasks) > strings.Count(reason, ",")+1 {
					res.count("probe:cycle_next_to_other_tasks")
				}
			}
			if !obs.Failed {
				res.violate("C03", "invalid-selection-is-an-error", sig, "%s, but the invocation succeeded (ran: %v)", reason, delta)
			} else if len(delta) > 0 {
				res.violate("C03", "error-runs-nothing", sig, "%s: spok reported an error but still ran %v", reason, delta)
			}
			continue
		}

		closure, _ := c.Prog.Closure(c.Request)
		if c.ViaClean && c.Prog.Task("clean") != nil {
			// required: the closure of clean; allowed in addition: the closure of the named tasks
			required, _ := c.Prog.Closure([]string{"clean"})
			allowedAll, _ := c.Prog.Closure(append([]string{"clean"}, c.Request...))
			res.count("probe:clean_flag_with_task_names")
			in := map[string]bool{}
			for _, n := range allowedAll {
				in[n] = true
			}
			if v.dupes {
				res.violate("C03", "nothing-runs-twice", sig, "`spok --clean %v`: a command ran twice: %v", c.Request, delta)
			}
			seenTask := map[string]int{}
			for _, m := range delta {
				seenTask[m]++
			}
			for _, t := range v.order {
				if !in[t] {
					res.violate("C03", "only-the-closure-runs", sig, "`spok --clean %v`: task %s ran but is neither clean, nor named, nor depended upon", c.Request, t)
				}
			}
			firstPos, lastPos := map[string]int{}, map[string]int{}
			for i, m := range delta {
				t := m[:strings.LastIndexByte(m, '.')]
				if _, ok := firstPos[t]; !ok {
					firstPos[t] = i
				}
				lastPos[t] = i
			}
			for _, n := range allowedAll {
				for _, d := range c.Prog.Task(n).Deps {
					if d.Kind != "task" {
						continue
					}
					fp, ranT := firstPos[n]
					lp, ranD := lastPos[d.Value]
					if ranT && ranD && lp > fp {
						res.violate("C03", "dependencies-first", sig, "`spok --clean %v`: task %s started before its dependency %s had finished: %v", c.Request, n, d.Value, delta)
					}
				}
			}
			if len(v.failing) == 0 && !obs.Failed && run == 0 {
				for _, n := range required {
					if len(v.markers[n]) == 0 && c.Prog.Task(n).NCmd > 0 {
						res.violate("C03", "closure-runs-once", sig, "`spok --clean`: task %s is clean or one of its dependencies but executed no command", n)
					}
				}
			}
			continue
		}
		inClosure := map[string]bool{}
		for _, n := range closure {
			inClosure[n] = true
		}
		// nothing twice, nothing outside the closure
		if v.dupes {
			res.violate("C03", "nothing-runs-twice", sig, "a command ran twice: %v", delta)
		}
		for _, t := range v.order {
			if !inClosure[t] {
				res.violate("C03", "only-the-closure-runs", sig, "task %s ran but is neither requested nor depended upon (closure %v)", t, closure)
			}
		}
		// dependencies first: last marker of d precedes first marker of t
		firstPos, lastPos := map[string]int{}, map[string]int{}
		for i, m := range delta {
			t := m[:strings.LastIndexByte(m, '.')]
			if _, ok := firstPos[t]; !ok {
				firstPos[t] = i
			}
			lastPos[t] = i
		}
		for _, n := range closure {
			for _, d := range c.Prog.Task(n).Deps {
				if d.Kind != "task" {
					continue
				}
				fp, ranT := firstPos[n]
				lp, ranD := lastPos[d.Value]
				if ranT && ranD && lp > fp {
					res.violate("C03", "dependencies-first", sig, "task %s started before its dependency %s had finished: %v", n, d.Value, delta)
				}
			}
		}
		failingRan := len(v.failing) > 0
		if failingRan {
			res.count("fault_fired:command_failed")
			continue // after a failure only order and at-most-once are demanded
		}
		if len(obs.Fired) > 0 {
			continue // a command could not be started: likewise
		}
		if obs.Failed {
			res.Abandoned = "invocation failed although the selection is valid and no command fails: " + short(obs.ErrText, 200)
			return res
		}
		// every closure member exactly once: executed completely, or reported skipped
		var jr []jsonResult
		listed := map[string]int{}
		if c.JSON {
			if err := json.Unmarshal([]byte(obs.Stdout), &jr); err != nil {
				res.Abandoned = "C20: --json output is not one JSON document"
				return res
			}
			for _, r := range jr {
				listed[r.Task]++
			}
		}
		for _, n := range closure {
			ran := len(v.markers[n]) > 0
			switch {
			case ran && !v.complete[n]:
				res.violate("C03", "closure-runs-once", sig, "task %s ran only part of its commands: %v", n, v.markers[n])
			case !ran && c.JSON && listed[n] == 0:
				res.violate("C03", "closure-runs-once", sig, "task %s is requested or depended upon but was neither executed nor reported (report lists %v)", n, listed)
			case c.JSON && listed[n] > 1:
				res.violate("C03", "closure-runs-once", sig, "task %s appears %d times in the report", n, listed[n])
			}
			if !ran {
				// a silently skipped task is only legitimate when it has file dependencies and ran before
				if !c.Prog.Task(n).HasFileDeps() || run == 0 {
					res.violate("C03", "closure-runs-once", sig, "task %s executed no command in run %d although it cannot be up to date", n, run)
				} else {
					res.count("probe:skipped_task_in_closure")
				}
			}
		}
		// the JSON report order respects the dependencies too
		if c.JSON {
			pos := map[string]int{}
			for i, r := range jr {
				pos[r.Task] = i
			}
			for _, n := range closure {
				for _, d := range c.Prog.Task(n).Deps {
					if d.Kind == "task" && pos[d.Value] > pos[n] {
						res.violate("C03", "dependencies-first", sig, "report lists %s before its dependency %s", n, d.Value)
					}
				}
			}
		}
	}
	_ = filepath.Join
	return res
}

func (graphScen) Shrinks(cc any) []any {
	c := cc.(*GraphCase)
	var out []any
	add := func(f func(n *GraphCase)) {
		n := cloneJSON(*c)
		f(&n)
		out = append(out, &n)
	}
	if c.Runs > 1 {
		add(func(n *GraphCase) { n.Runs = 1 })
	}
	if c.ViaClean {
		add(func(n *GraphCase) { n.ViaClean = false })
	}
	if len(c.Fail) > 0 {
		add(func(n *GraphCase) { n.Fail = nil })
	}
	for i := range c.Request {
		if len(c.Request) > 1 {
			add(func(n *GraphCase) { n.Request = append(n.Request[:i:i], n.Request[i+1:]...) })
		}
	}
	for vi := range c.Prog.Vars {
		add(func(n *GraphCase) { n.Prog.Vars = append(n.Prog.Vars[:vi:vi], n.Prog.Vars[vi+1:]...) })
	}
	for ti := range c.Prog.Tasks {
		if len(c.Prog.Tasks) > 1 {
			add(func(n *GraphCase) {
				name := n.Prog.Tasks[ti].Name
				n.Prog.Tasks = append(n.Prog.Tasks[:ti:ti], n.Prog.Tasks[ti+1:]...)
				if n.Prog.Task(name) == nil {
					for k := range n.Prog.Tasks {
						var ds []Dep
						for _, d := range n.Prog.Tasks[k].Deps {
							if !(d.Kind == "task" && d.Value == name) {
								ds = append(ds, d)
							}
						}
						n.Prog.Tasks[k].Deps = ds
					}
					var rq []string
					for _, q := range n.Request {
						if q != name {
							rq = append(rq, q)
						}
					}
					if len(rq) > 0 {
						n.Request = rq
					}
				}
			})
		}
		for di := range c.Prog.Tasks[ti].Deps {
			add(func(n *GraphCase) {
				d := n.Prog.Tasks[ti].Deps
				n.Prog.Tasks[ti].Deps = append(d[:di:di], d[di+1:]...)
			})
		}
		if c.Prog.Tasks[ti].NCmd > 1 {
			add(func(n *GraphCase) { n.Prog.Tasks[ti].NCmd = 1; n.Fail = nil })
		}
	}
	if c.Sched.Policy != "fifo" {
		add(func(n *GraphCase) { n.Sched = Sched{Policy: "fifo"} })
	}
	if !c.JSON {
		add(func(n *GraphCase) { n.JSON = true })
	}
	return out
}
