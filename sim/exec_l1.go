package spoksim

import (
	"fmt"
	"os"
	"path/filepath"
	"strings"

	"github.com/FollowTheProcess/collections/simorder"
	"github.com/FollowTheProcess/spok/file"
	"github.com/FollowTheProcess/spok/iostream"
	"github.com/FollowTheProcess/spok/parser"
	"github.com/FollowTheProcess/spok/shell"
)

// RunnerFault makes the command runner return an error (not an exit status) for one command: the operating system
// could not start it (EAGAIN: process limit, ETXTBSY: script still open for writing, ENOMEM, EMFILE ...).
type RunnerFault struct {
	Cmd   string // exact command text
	Errno string
	Times int // how many calls fail (1 = transient, large = persistent)
	Fired int
}

// faultRunner wraps the real integrated runner: the shell.Runner interface is the seam.
type faultRunner struct {
	inner shell.Runner
	f     *RunnerFault
}

func (r *faultRunner) Run(cmd string, stream iostream.IOStream, task string, env []string) (shell.Result, error) {
	if r.f != nil && cmd == r.f.Cmd && r.f.Times > 0 {
		r.f.Times--
		r.f.Fired++
		return shell.Result{Cmd: cmd}, fmt.Errorf("could not start command %q of task %q: %w", cmd, task, &os.PathError{Op: "fork/exec", Path: "/bin/sh", Err: errnoByName[r.f.Errno]})
	}
	return r.inner.Run(cmd, stream, task, env)
}

// InvokeRunner runs tasks through parser + file.New + SpokFile.Run (level L1: no CLI, no cooperative scheduler)
// with the real integrated runner behind a fault-injecting wrapper. Environment and working directory of the
// simulated process are set up as for World.Invoke.
func (w *World) InvokeRunner(tasks []string, env map[string]string, fault *RunnerFault, sched Sched, inv int) *Obs {
	obs := &Obs{Counts: map[string]int{}}
	// the order in which the dag package iterates its maps comes from the case's schedule, as at level L2
	ch := NewChooser(sched, inv)
	simorder.PermFn = func(n int, site string) []int {
		p := ch.Perm(n)
		if n > 1 {
			obs.Perms = append(obs.Perms, fmt.Sprintf("%s%v", site, p))
		}
		return p
	}
	defer func() { simorder.PermFn = nil }()
	oldCwd, err := os.Getwd()
	must(err)
	oldEnv := os.Environ()
	os.Clearenv()
	for _, k := range sortedKeys(env) {
		os.Setenv(k, env[k])
	}
	must(os.Chdir(w.Proj))
	defer func() {
		os.Clearenv()
		for _, kv := range oldEnv {
			if i := strings.IndexByte(kv, '='); i > 0 {
				os.Setenv(kv[:i], kv[i+1:])
			}
		}
		must(os.Chdir(oldCwd))
	}()
	obs.Out.Returned = true
	fail := func(e error) *Obs {
		obs.Failed = true
		obs.ErrText = e.Error()
		return obs
	}
	src, err := os.ReadFile(filepath.Join(w.Proj, "spokfile"))
	must(err)
	tree, err := parser.New(string(src)).Parse()
	if err != nil {
		return fail(err)
	}
	sf, err := file.New(tree, w.Proj, quietLogger{})
	if err != nil {
		return fail(err)
	}
	func() {
		defer func() {
			if r := recover(); r != nil {
				obs.Out.Panic = fmt.Sprint(r)
			}
		}()
		results, err := sf.Run(iostream.Null(), &faultRunner{inner: shell.NewIntegratedRunner(), f: fault}, false, tasks...)
		if err != nil {
			fail(err)
			return
		}
		for _, r := range results {
			if !r.Ok() {
				obs.Failed = true
				obs.ErrText = "task " + r.Task + " failed"
			}
		}
	}()
	if fault != nil && fault.Fired > 0 {
		obs.Fired = append(obs.Fired, "runner-"+fault.Errno)
	}
	return obs
}
