package spoksim

import (
	"encoding/json"
	"fmt"
	"os"
	"path"
	"path/filepath"
	"sort"
	"strings"

	"github.com/FollowTheProcess/spok/file"
	"github.com/FollowTheProcess/spok/iostream"
	"github.com/FollowTheProcess/spok/parser"
	"github.com/FollowTheProcess/spok/shell"
)

// GlobCase is one case of scenario globtree (C05).
type GlobCase struct {
	Deps  []string  `json:"deps"` // glob patterns used as dependencies
	Outs  []string  `json:"outs"` // glob patterns used as outputs
	Tree  []string  `json:"tree"` // initial files (relative paths)
	Dirs  []string  `json:"dirs,omitempty"`
	Steps [][]GEdit `json:"steps"` // edits applied between expansions
	// DirLink "name->target": a symbolic link to a directory inside the tree. Whether a wildcard reaches files
	// through such a link is not settled by the property (accept either); everything else stays exact
	DirLink string `json:"dir_link,omitempty"`
	// FileLinks "name->target": symbolic links to files (matching and not matching the patterns, hidden, missing).
	// A link to an existing regular file is a file of the tree under the link's own path (a dangling link is not);
	// a link never brings its target into an expansion the target's own path does not belong to
	FileLinks []string `json:"file_links,omitempty"`
	// RootName: the spokfile's directory is a sub-directory with this name (glob meta characters, spaces,
	// non-ASCII, a leading dash): the pattern is relative to it, its own name is not part of any pattern
	RootName string `json:"root_name,omitempty"`
}

// GEdit adds or removes one file.
type GEdit struct {
	Add  bool   `json:"add"`
	Path string `json:"path"`
}

type globScen struct{}

func init() { register(globScen{}) }

func (globScen) Name() string    { return "globtree" }
func (globScen) Props() []string { return []string{"C05"} }
func (globScen) Decode(raw json.RawMessage) (any, error) {
	var c GlobCase
	err := json.Unmarshal(raw, &c)
	return &c, err
}
func (globScen) Rule(string) string {
	return "case = a tree that is a subset of a pool of 16 paths (top-level and nested files, dot-files and dot-directories at top level and nested, names sorting before and after the dot entries, empty directories; one tree in six contains a symbolic link to one of its directories: files reached only through it are accepted either way, everything else stays exact) and 1-4 of 22 patterns (*.ext, **/*.ext, dir/*, */*, **, dir/**, dir/**/*.ext, {a,b} forms) used as dependency and output patterns of a task; the tree evolves for 1-4 steps (files and hidden entries added/removed) and every state is expanded twice by fresh file.New + SpokFile.Run (real parser, file, doublestar; stub shell runner). Oracle: regular files of SpokFile.Globs[pattern] == independent reference matcher over the model tree, identical on re-expansion. distinct_nontrivial = distinct (pattern, tree state) pairs."
}

var glPool = []string{"a.js", "z.js", "m.txt", "src/a.js", "src/b.txt", "src/deep/c.js", ".x.js", ".d/a.js", "src/.h.js", "src/.hd/e.js",
	"-pre.js", "0.js", "lib/x.js", "src/deep/more/d.js", "lib/.keep", ".z.txt"}
var glDirs = []string{"empty", "src/emptydir", ".hiddenempty"}
var glPatterns = []string{"*.js", "**/*.js", "src/*", "*/*", "**", "src/**", "src/**/*.js", "{src,lib}/*.js", "*.{js,txt}", "src/*.js", "**/c.js",
	"src/deep/*", "lib/**", "*", "**/*", "s*/*.js", "src/**/d.js", "**/*.txt", "*/deep/*.js", "**/deep/**", "lib/*", "**/.h.js",
	"./*.js", "./src/*.js", "./**/*.txt", "src/./*.js", ".*", ".d/*.js", ".*/*.js", ".*.js", "src/.*"}

func (globScen) Gen(r *Rng, cfg GenConfig) any {
	c := &GlobCase{}
	c.Tree = Subset(r, glPool, 1, 2)
	c.Dirs = Subset(r, glDirs, 1, 3)
	n := r.Range(1, 4)
	pats := Shuffled(r, glPatterns)[:n]
	for _, p := range pats {
		if r.Chance(1, 3) {
			c.Outs = append(c.Outs, p)
		} else {
			c.Deps = append(c.Deps, p)
		}
	}
	if r.Chance(1, 6) {
		c.DirLink = Pick(r, []string{"vendor->src", "lib/ext->../src/deep", "zlink->src/deep"})
	}
	if r.Chance(1, 6) {
		c.RootName = Pick(r, []string{"proj [1]", "{backup}", "a*b", "what?", "sp ace", "-dash", "ünï", "back\\slash", "[x]"})
	}
	if r.Chance(1, 5) {
		c.FileLinks = Subset(r, []string{"alias.js->m.txt", "src/alias.js->../.x.js", "latest.txt->src/b.txt", "zz.js->nowhere", "lib/link.js->../a.js", "src/deep/up.txt->../../.z.txt"}, 1, 2)
		// a link whose target is missing cannot be hashed: patterns are declared as outputs in these cases
		c.Outs, c.Deps = append(c.Outs, c.Deps...), nil
	}
	for s := r.Range(1, 4); s > 0; s-- {
		var step []GEdit
		for k := r.Range(1, 3); k > 0; k-- {
			step = append(step, GEdit{Add: r.Chance(1, 2), Path: Pick(r, glPool)})
		}
		c.Steps = append(c.Steps, step)
	}
	return c
}

type stubRunner struct{ ran []string }

func (s *stubRunner) Run(cmd string, _ iostream.IOStream, task string, _ []string) (shell.Result, error) {
	s.ran = append(s.ran, cmd)
	return shell.Result{Cmd: cmd}, nil
}

func (globScen) Exec(w *World, cc any, prop string) *Result {
	c := cc.(*GlobCase)
	res := newResult()
	root := w.Proj
	if c.RootName != "" {
		root = filepath.Join(w.Proj, c.RootName)
		must(os.MkdirAll(root, 0o755))
		res.count("fault_present:unusual_project_directory_name")
	}
	var deps, outs []string
	for _, p := range c.Deps {
		deps = append(deps, `"`+p+`"`)
	}
	for _, p := range c.Outs {
		outs = append(outs, `"`+p+`"`)
	}
	src := fmt.Sprintf("task glob(%s)", strings.Join(deps, ", "))
	if len(outs) > 0 {
		src += fmt.Sprintf(" -> (%s)", strings.Join(outs, ", "))
	}
	src += " {}\n"
	writeFile(filepath.Join(root, "spokfile"), src)
	model := map[string]string{"spokfile": src}
	for _, d := range c.Dirs {
		must(os.MkdirAll(filepath.Join(root, filepath.FromSlash(d)), 0o755))
	}
	put := func(rel string) {
		if conflictsWithFile(model, rel) {
			return
		}
		if c.DirLink != "" {
			ln := strings.SplitN(c.DirLink, "->", 2)[0]
			if rel == ln || strings.HasPrefix(rel, ln+"/") {
				return
			}
		}
		if st, err := os.Lstat(filepath.Join(root, filepath.FromSlash(rel))); err == nil && !st.Mode().IsRegular() {
			return
		}
		model[rel] = "x"
		writeFile(filepath.Join(root, filepath.FromSlash(rel)), "x")
	}
	for _, f := range c.Tree {
		put(f)
	}
	pats := append(append([]string{}, c.Deps...), c.Outs...)
	linkName := ""
	if c.DirLink != "" {
		parts := strings.SplitN(c.DirLink, "->", 2)
		linkName = parts[0]
		target := filepath.Join(root, filepath.FromSlash(filepath.Dir(linkName)), filepath.FromSlash(parts[1]))
		must(os.MkdirAll(target, 0o755))
		must(os.MkdirAll(filepath.Dir(filepath.Join(root, filepath.FromSlash(linkName))), 0o755))
		must(os.Symlink(filepath.FromSlash(parts[1]), filepath.Join(root, filepath.FromSlash(linkName))))
		res.count("fault_present:directory_symlink_in_tree")
	}
	linkTargets := map[string]string{} // link path -> target path, both relative to root
	for _, fl := range c.FileLinks {
		parts := strings.SplitN(fl, "->", 2)
		full := filepath.Join(root, filepath.FromSlash(parts[0]))
		if _, err := os.Lstat(full); err == nil || conflictsWithFile(model, parts[0]) {
			continue
		}
		if os.MkdirAll(filepath.Dir(full), 0o755) == nil && os.Symlink(filepath.FromSlash(parts[1]), full) == nil {
			res.count("fault_present:file_symlink_in_tree")
			linkTargets[parts[0]] = filepath.ToSlash(filepath.Join(filepath.Dir(parts[0]), parts[1]))
		}
	}
	// throughLink: rel names a regular file reached through the directory link and matching the pattern
	throughLink := func(p, rel string) bool {
		if linkName == "" || !strings.HasPrefix(rel, linkName+"/") {
			return false
		}
		return !strings.HasPrefix(rel, ".") && GlobMatch(p, rel)
	}

	expand := func(label string) (map[string][]string, bool) {
		tree, err := parser.New(src).Parse()
		if err != nil {
			res.Abandoned = "C06/C08: the generated spokfile does not parse: " + err.Error()
			return nil, false
		}
		sf, err := file.New(tree, root, quietLogger{})
		if err != nil {
			res.Abandoned = "file.New failed: " + err.Error()
			return nil, false
		}
		if _, err := sf.Run(iostream.Null(), &stubRunner{}, false, "glob"); err != nil {
			res.Abandoned = "SpokFile.Run failed: " + err.Error()
			return nil, false
		}
		res.Ops++
		// the task's own record of its patterns (public fields, same order as declared) says under which
		// key the implementation files each expansion, should it normalise patterns
		stored := map[string]string{}
		if t, ok := sf.Tasks["glob"]; ok {
			if len(t.GlobDependencies) == len(c.Deps) {
				for i, p := range c.Deps {
					stored[p] = t.GlobDependencies[i]
				}
			}
			if len(t.GlobOutputs) == len(c.Outs) {
				for i, p := range c.Outs {
					stored[p] = t.GlobOutputs[i]
				}
			}
		}
		out := map[string][]string{}
		for _, p := range pats {
			var files []string
			// SpokFile.Globs is documented as "glob pattern -> concrete filepaths"; an implementation
			// that normalises patterns consistently may key it by the cleaned spelling
			expanded, ok := sf.Globs[p]
			if k, has := stored[p]; has && k != p {
				expanded, ok = sf.Globs[k]
			}
			if !ok {
				expanded = sf.Globs[path.Clean(p)]
			}
			for _, abs := range expanded {
				st, err := os.Lstat(abs)
				if err != nil {
					files = append(files, "!missing:"+abs)
					continue
				}
				if st.Mode().IsRegular() {
					r, _ := filepath.Rel(root, abs)
					files = append(files, filepath.ToSlash(r))
				} else if st.Mode()&os.ModeSymlink != 0 {
					// a symbolic link to an existing regular file is a file of the tree under the link's own path
					if tst, err := os.Stat(abs); err == nil && tst.Mode().IsRegular() {
						r, _ := filepath.Rel(root, abs)
						files = append(files, filepath.ToSlash(r))
					}
				}
			}
			sort.Strings(files)
			out[p] = files
		}
		return out, true
	}

	check := func(state int) bool {
		first, ok := expand("a")
		if !ok {
			return false
		}
		second, ok := expand("b")
		if !ok {
			return false
		}
		for _, p := range pats {
			// the tree as the reference sees it: the regular files plus the links whose target is one of them
			ref := model
			if len(linkTargets) > 0 {
				ref = make(map[string]string, len(model)+len(linkTargets))
				for k, v := range model {
					ref[k] = v
				}
				for l, t := range linkTargets {
					if _, ok := model[t]; ok {
						ref[l] = "->" + t
						res.count("probe:link_to_a_regular_file_in_tree")
					}
				}
			}
			want := RefGlob(ref, p)
			var got []string
			for _, f := range dedupSorted(first[p]) {
				if throughLink(p, f) {
					res.count("accept_either:file_reached_through_directory_symlink")
					continue
				}
				got = append(got, f)
			}
			res.event("state%d %q -> %v", state, p, first[p])
			res.distinct(p + "|" + strings.Join(sortedKeys(model), ","))
			hiddenFirst := false
			for f := range model {
				if strings.HasPrefix(f, ".") && !strings.Contains(f, "/") {
					hiddenFirst = true
				}
			}
			if hiddenFirst && len(want) > 0 {
				res.count("probe:top_level_hidden_file_next_to_matches")
			}
			if strings.Join(got, ",") != strings.Join(want, ",") {
				missing, extra := diffSorted(want, got)
				res.violate("C05", "glob-denotes-exactly-the-matching-non-hidden-files", "glob:"+classify(missing, extra),
					"pattern %q over tree %v expands to regular files %v, the reference says %v (omitted %v, wrongly included %v)", p, sortedKeys(model), got, want, missing, extra)
				return false
			}
			if strings.Join(first[p], ",") != strings.Join(second[p], ",") {
				res.violate("C05", "same-on-every-expansion", "glob:reexpansion", "pattern %q gave %v and then %v on an unchanged tree", p, first[p], second[p])
				return false
			}
			if len(first[p]) != len(dedupSorted(first[p])) {
				res.count("accept_either:duplicate_entries_in_expansion")
			}
		}
		return true
	}

	if !check(0) {
		return res
	}
	for si, step := range c.Steps {
		for _, e := range step {
			if e.Add {
				put(e.Path)
				res.count("tree_edit:add")
			} else if _, ok := model[e.Path]; ok {
				delete(model, e.Path)
				os.Remove(filepath.Join(root, filepath.FromSlash(e.Path)))
				res.count("tree_edit:remove")
			}
		}
		if !check(si + 1) {
			return res
		}
	}
	return res
}

func conflictsWithFile(model map[string]string, rel string) bool {
	for d := filepath.ToSlash(filepath.Dir(rel)); d != "."; d = filepath.ToSlash(filepath.Dir(d)) {
		if _, ok := model[d]; ok {
			return true
		}
	}
	return false
}

func dedupSorted(xs []string) []string {
	var out []string
	for i, x := range xs {
		if i == 0 || xs[i-1] != x {
			out = append(out, x)
		}
	}
	return out
}

func diffSorted(want, got []string) (missing, extra []string) {
	w, g := map[string]bool{}, map[string]bool{}
	for _, x := range want {
		w[x] = true
	}
	for _, x := range got {
		g[x] = true
	}
	for _, x := range want {
		if !g[x] {
			missing = append(missing, x)
		}
	}
	for _, x := range got {
		if !w[x] {
			extra = append(extra, x)
		}
	}
	return
}

func classify(missing, extra []string) string {
	switch {
	case len(missing) > 0 && len(extra) > 0:
		return "omitted+included"
	case len(missing) > 0:
		return "omitted"
	}
	return "included"
}

func (globScen) Shrinks(cc any) []any {
	c := cc.(*GlobCase)
	var out []any
	add := func(f func(n *GlobCase)) {
		n := cloneJSON(*c)
		f(&n)
		out = append(out, &n)
	}
	for i := range c.Steps {
		add(func(n *GlobCase) { n.Steps = append(n.Steps[:i:i], n.Steps[i+1:]...) })
	}
	for i := range c.Deps {
		add(func(n *GlobCase) { n.Deps = append(n.Deps[:i:i], n.Deps[i+1:]...) })
	}
	for i := range c.Outs {
		add(func(n *GlobCase) { n.Outs = append(n.Outs[:i:i], n.Outs[i+1:]...) })
	}
	for i := range c.Tree {
		add(func(n *GlobCase) { n.Tree = append(n.Tree[:i:i], n.Tree[i+1:]...) })
	}
	for i := range c.Dirs {
		add(func(n *GlobCase) { n.Dirs = append(n.Dirs[:i:i], n.Dirs[i+1:]...) })
	}
	if c.DirLink != "" {
		add(func(n *GlobCase) { n.DirLink = "" })
	}
	if c.RootName != "" {
		add(func(n *GlobCase) { n.RootName = "" })
	}
	for i := range c.FileLinks {
		add(func(n *GlobCase) { n.FileLinks = append(n.FileLinks[:i:i], n.FileLinks[i+1:]...) })
	}
	for si, st := range c.Steps {
		for ei := range st {
			if len(st) > 1 {
				add(func(n *GlobCase) { n.Steps[si] = append(n.Steps[si][:ei:ei], n.Steps[si][ei+1:]...) })
			}
		}
	}
	return out
}
