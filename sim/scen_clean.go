package spoksim

import (
	"encoding/json"
	"fmt"
	"os"
	"path/filepath"
	"sort"
	"strings"
)

// CleanCase is one case of scenario clean (C12).
type CleanCase struct {
	Prog   Program           `json:"prog"`
	Tree   map[string]string `json:"tree"`
	Dirs   []string          `json:"dirs,omitempty"`
	Cwd    string            `json:"cwd,omitempty"`
	PreRun []string          `json:"pre_run,omitempty"` // tasks run before --clean (creates the cache, like an earlier simulated run)
	// PreCrash >= 0: that earlier run is killed at its n-th crash point (the first few lie inside the creation of
	// the cache directory), so --clean meets a half-initialised cache
	PreCrash  int `json:"pre_crash,omitempty"`
	RemoveErr int `json:"remove_err"` // the n-th removal fails with EACCES; -1 = none
	// Spokfile: how the spokfile is named on the command line: "" (found from cwd), "abs" (--spokfile /abs/path),
	// "rel" (--spokfile <path relative to cwd>, e.g. ./spokfile, ../spokfile or proj/spokfile from $HOME)
	Spokfile string `json:"spokfile,omitempty"`
	// Links are symbolic links in the project tree: path -> target (target relative to the link's directory)
	Links    map[string]string `json:"links,omitempty"`
	FromHome bool              `json:"from_home,omitempty"` // invoke from $HOME (the parent of the project); needs Spokfile != ""
	// ViaLink: the project is reached through a symbolic link in its path ($HOME/via -> . , project = $HOME/via/proj):
	// $PWD, the working directory and --spokfile carry the logical path. RealVars: absolute values in the spokfile
	// are nevertheless written with the physical path.
	ViaLink  bool `json:"via_link,omitempty"`
	RealVars bool `json:"real_vars,omitempty"`
}

type cleanScen struct{}

func init() { register(cleanScen{}) }

func (cleanScen) Name() string    { return "clean" }
func (cleanScen) Props() []string { return []string{"C12"} }
func (cleanScen) Decode(raw json.RawMessage) (any, error) {
	var c CleanCase
	err := json.Unmarshal(raw, &c)
	return &c, err
}
func (cleanScen) Rule(string) string {
	return "case = a project tree (files inside and outside declared outputs, nested and empty directories, pre-existing and missing outputs, hidden files) + a spokfile declaring 0-5 outputs: literal paths (files, directories, degenerate '', '.', '..', 'spokfile'), named outputs whose variables are string literals, join(...) or degenerate ('', '.', the project directory), output globs (matching some, none, hidden files), symbolic links (to files, directories, nothing) matched by output globs or named exactly like a literal / named output, with or without a task named clean, with or without an earlier run, invoked from the root or a nested directory, optionally with the n-th removal failing (EACCES injected at the removal seam). Oracle: full snapshot of $HOME before/after; the removal seam vetoes and records any attempt on the spokfile, the project directory, an ancestor or anything outside the sandbox. distinct_nontrivial = distinct (output kinds and degeneracy, clean task?, cwd, fault, outcome) tuples."
}

var clFiles = []string{"out/a.o", "out/b.o", "out/sub/c.o", "bin/app", "gen.txt", "keep.txt", "src/main.c", "src/gen.c", ".hidden.o", "docs/readme.md", "a.o",
	"out.tar.gz", "bin/app.exe", "gen.txt.bak", "out2/x.o", "a.o.d", "spok"}
var clDirs = []string{"emptyout", "out/emptysub", "build"}
var clLiteralOuts = []string{"out", "bin/app", "gen.txt", "missing.bin", "emptyout", "out/sub", "build", "a.o", "spok",
	"out.tar.gz", "bin/app.exe", "gen.txt.bak", "out2", "a.o.d", "out", "bin/app", "gen.txt"}
var clDegenerate = []string{"", ".", "..", "spokfile", "./", "out/.."}
var clGlobOuts = []string{"*.o", "out/*.o", "**/*.o", "src/gen.*", "nomatch/*.zip", "out/**", "./*.o", "./out/*.o", "out/./*.o", "{out,nomatch}/*.o",
	"*", "spok*", "s*"} // the last three also match the spokfile itself (and the file "spok")

func (cleanScen) Gen(r *Rng, cfg GenConfig) any {
	c := &CleanCase{Tree: map[string]string{}, RemoveErr: -1}
	for _, f := range clFiles {
		if r.Chance(3, 5) {
			c.Tree[f] = "x"
		}
	}
	c.Dirs = Subset(r, clDirs, 1, 2)
	if r.Chance(1, 4) {
		c.Cwd = Pick(r, []string{"src", "docs"})
	}
	degenerate := r.Chance(1, 4)
	nt := r.Range(1, 3)
	nvar := 0
	for i := 0; i < nt; i++ {
		t := TaskDef{Name: chTaskNames[i], NCmd: 1}
		for k := r.Intn(3); k > 0; k-- {
			switch r.Intn(3) {
			case 0:
				v := Pick(r, clLiteralOuts)
				if degenerate && r.Chance(1, 2) {
					v = Pick(r, clDegenerate)
				}
				t.Outs = append(t.Outs, Out{"file", v})
			case 1:
				t.Outs = append(t.Outs, Out{"glob", Pick(r, clGlobOuts)})
			default:
				name := []string{"OUT", "DIST", "BIN", "GEN", "TMPOUT"}[nvar%5]
				nvar++
				vd := VarDef{Name: name}
				switch k := r.Intn(4); {
				case degenerate && k < 2:
					vd.Kind, vd.Args = "str", []string{Pick(r, []string{"", ".", "{PROJ}", "{PROJ}/", "..", "{PROJ}/spokfile"})}
				case k == 0:
					vd.Kind, vd.Args = "str", []string{"{PROJ}/" + Pick(r, clLiteralOuts)}
				case k == 1 && c.Cwd == "":
					vd.Kind, vd.Args = "str", []string{Pick(r, clLiteralOuts)}
				case k == 2 && c.Cwd == "":
					vd.Kind, vd.Args = "join", []string{".", Pick(r, clLiteralOuts)}
				default:
					vd.Kind, vd.Args = "join", []string{"{PROJ}", Pick(r, clLiteralOuts)}
				}
				c.Prog.Vars = append(c.Prog.Vars, vd)
				t.Outs = append(t.Outs, Out{"named", name})
			}
		}
		if r.Chance(1, 3) {
			t.Deps = append(t.Deps, Dep{"file", "src/main.c"})
			c.Tree["src/main.c"] = "x"
		}
		c.Prog.Tasks = append(c.Prog.Tasks, t)
	}
	if r.Chance(1, 5) {
		c.Prog.Tasks = append(c.Prog.Tasks, TaskDef{Name: "clean", NCmd: 1})
	}
	if r.Chance(1, 2) {
		c.PreRun = []string{c.Prog.Tasks[0].Name}
		if r.Chance(1, 6) {
			c.PreCrash = 1 + r.Intn(5) // stored +1 so that the zero value means "not killed"
		}
	}
	if r.Chance(1, 6) {
		c.RemoveErr = r.Intn(3)
	}
	c.Prog.Layout = r.Intn(6)
	if r.Chance(1, 5) {
		// links whose names match the output pool / output globs and whose targets are NOT outputs
		c.Links = map[string]string{}
		for _, l := range Subset(r, [][2]string{{"out/include", "../src"}, {"out/keep.o", "../keep.txt"}, {"bin/app", "../src/main.c"}, {"z.o", "docs/readme.md"}, {"out/dangling.o", "../nowhere"},
			{"missing.bin", "gone-target"}, {"gen.txt", "nowhere/at/all"}, {"build", "gone-dir"}}, 1, 2) {
			c.Links[l[0]] = l[1]
		}
		c.Tree["keep.txt"], c.Tree["src/main.c"], c.Tree["docs/readme.md"] = "x", "x", "x"
	}
	if r.Chance(1, 6) {
		c.ViaLink = true
		c.RealVars = r.Chance(1, 3)
	}
	if r.Chance(1, 4) {
		c.Spokfile = Pick(r, []string{"abs", "rel", "rel"})
		if c.Cwd == "" && r.Chance(1, 2) {
			c.FromHome = true
			// relative values (named outputs, join(".")) are only generated for invocations from the project root
			for i := range c.Prog.Vars {
				v := &c.Prog.Vars[i]
				if v.Kind == "join" && v.Args[0] == "." {
					v.Args[0] = "{PROJ}"
				}
				if v.Kind == "str" && !strings.HasPrefix(v.Args[0], "{PROJ}") && v.Args[0] != "" && v.Args[0] != "." && v.Args[0] != ".." {
					v.Args[0] = "{PROJ}/" + v.Args[0]
				}
			}
		}
	}
	return c
}

func (cleanScen) Exec(w *World, cc any, prop string) *Result {
	c := cc.(*CleanCase)
	res := newResult()
	proj := w.Proj
	logical := proj // the path under which the user (cwd, $PWD, --spokfile) addresses the project
	if c.ViaLink {
		must(os.Symlink(".", filepath.Join(w.Home, "via")))
		logical = filepath.Join(w.Home, "via", filepath.Base(proj))
		res.count("fault_present:project_reached_through_symlinked_path")
	}
	inSpokfile := logical
	if c.RealVars {
		inSpokfile = proj
	}
	text := strings.ReplaceAll(c.Prog.Render(), "{PROJ}", inSpokfile)
	writeFile(filepath.Join(proj, "spokfile"), text)
	model := map[string]string{}
	for _, d := range append([]string{"src", "docs"}, c.Dirs...) {
		must(os.MkdirAll(filepath.Join(proj, filepath.FromSlash(d)), 0o755))
	}
	for _, f := range sortedKeys(c.Tree) {
		if conflictsWithFile(model, f) {
			continue
		}
		model[f] = c.Tree[f]
		writeFile(filepath.Join(proj, filepath.FromSlash(f)), c.Tree[f])
	}
	for _, t := range c.Prog.Tasks {
		for i := 0; i < t.NCmd; i++ {
			writeFile(filepath.Join(w.Ctl, fmt.Sprintf("%s_%d", t.Name, i)), "true\n")
		}
	}
	for _, l := range sortedKeys(c.Links) {
		if _, isFile := model[l]; isFile || conflictsWithFile(model, l) {
			continue
		}
		full := filepath.Join(proj, filepath.FromSlash(l))
		must(os.MkdirAll(filepath.Dir(full), 0o755))
		os.Remove(full)
		if err := os.Symlink(filepath.FromSlash(c.Links[l]), full); err == nil {
			// for the reference matcher a link is an entry of the tree like a file (it is the link
			// that an output designates, never what it points to)
			model[l] = "->" + c.Links[l]
			res.count("fault_present:symlink_in_tree")
		}
	}
	cwd := filepath.Join(logical, filepath.FromSlash(c.Cwd))
	if c.FromHome && c.Spokfile != "" {
		cwd = w.Home
	}
	env := w.BaseEnv()
	if c.ViaLink {
		env["PWD"] = cwd
	}
	inv := 0
	if len(c.PreRun) > 0 {
		pf := NoFaults()
		if c.PreCrash > 0 {
			pf.CrashAt = c.PreCrash - 1
		}
		obs := w.Invoke(Invocation{Args: append(append([]string{}, c.PreRun...), "--json"), Cwd: proj, Env: w.BaseEnv(), Inv: inv, Sched: Sched{Policy: "fifo"}, Faults: pf})
		if obs.Crashed != "" {
			res.count("fault_fired:earlier_run_killed_at_" + strings.SplitN(obs.Crashed, "(", 2)[0])
		}
		inv++
		res.Ops++
		res.event("prerun %v failed=%v", c.PreRun, obs.Failed)
	}
	logBefore := readFileOr(w.Log, "")
	pre := Snap(w.Home)

	// ---- the model's designated set (absolute paths)
	hasClean := c.Prog.Task("clean") != nil
	vars := map[string]string{}
	for _, v := range c.Prog.Vars {
		args := make([]string, len(v.Args))
		for i, a := range v.Args {
			args[i] = strings.ReplaceAll(a, "{PROJ}", proj)
		}
		switch v.Kind {
		case "str":
			vars[v.Name] = args[0]
		case "join":
			j := filepath.Join(args...)
			if !filepath.IsAbs(j) {
				j = filepath.Join(proj, filepath.FromSlash(c.Cwd), j) // relative joins are only generated for invocations from inside the project
			}
			vars[v.Name] = j
		}
	}
	var designated, protectedHit, optional []string
	modelDirs := map[string]bool{}
	for _, d := range append([]string{"src", "docs"}, c.Dirs...) {
		for x := d; x != "." && x != ""; x = filepath.ToSlash(filepath.Dir(x)) {
			modelDirs[x] = true
		}
	}
	for f := range model {
		for x := filepath.ToSlash(filepath.Dir(f)); x != "." && x != ""; x = filepath.ToSlash(filepath.Dir(x)) {
			modelDirs[x] = true
		}
	}
	kinds := map[string]bool{}
	isProtected := func(p string) bool {
		p = filepath.Clean(p)
		return p == filepath.Join(proj, "spokfile") || p == proj || strings.HasPrefix(proj, p+string(filepath.Separator)) || !strings.HasPrefix(p, w.Root+string(filepath.Separator))
	}
	addDesignated := func(p, kind string) {
		p = filepath.Clean(p)
		if isProtected(p) {
			protectedHit = append(protectedHit, p)
			kinds[kind+"!"] = true
			return
		}
		kinds[kind] = true
		designated = append(designated, p)
	}
	for _, t := range c.Prog.Tasks {
		for _, o := range t.Outs {
			switch o.Kind {
			case "file":
				addDesignated(filepath.Join(proj, o.Value), "file")
			case "named":
				v := vars[o.Value]
				if !filepath.IsAbs(v) {
					v = filepath.Join(proj, v) // relative values are only generated for cwd == project root
				}
				addDesignated(v, "named")
			case "glob":
				for _, relp := range RefGlob(model, o.Value) {
					addDesignated(filepath.Join(proj, filepath.FromSlash(relp)), "glob")
				}
				kinds["glob"] = true
				// the specification speaks of *files* matching output globs; whether a directory
				// that matches the pattern is removed too (with what it contains) is left open
				for d := range modelDirs {
					if !strings.HasPrefix(d, ".") && GlobMatch(o.Value, d) {
						optional = append(optional, filepath.Join(proj, filepath.FromSlash(d)))
					}
				}
				// likewise left open: a file whose path *through a symbolic link to a directory* matches the
				// pattern (out/include -> ../src, pattern out/**: is src/main.c, alias out/include/main.c, an
				// output?). Removing it is tolerated, leaving it is too.
				for l, target := range c.Links {
					if _, isLink := model[l]; !isLink {
						continue
					}
					tdir := filepath.ToSlash(filepath.Join(filepath.Dir(l), target))
					for f := range model {
						if strings.HasPrefix(f, tdir+"/") {
							alias := l + "/" + strings.TrimPrefix(f, tdir+"/")
							if !strings.HasPrefix(alias, ".") && GlobMatch(o.Value, alias) {
								optional = append(optional, filepath.Join(proj, filepath.FromSlash(f)))
								kinds["glob-through-dirlink"] = true
							}
						}
					}
				}
			}
		}
	}
	sort.Strings(designated)
	relHome := func(abs string) string {
		r, err := filepath.Rel(w.Home, abs)
		if err != nil {
			return abs
		}
		return filepath.ToSlash(r)
	}
	cacheRel := relHome(filepath.Join(proj, ".spok"))
	allowed := func(p string) bool { // p relative to home: may it disappear?
		if under(p, cacheRel) {
			return true
		}
		for _, d := range designated {
			if under(p, relHome(d)) {
				return true
			}
		}
		return false
	}
	tolerated := func(p string) bool { // may disappear, need not
		for _, d := range optional {
			if under(p, relHome(d)) {
				return true
			}
		}
		return false
	}

	f := NoFaults()
	if c.RemoveErr >= 0 {
		targets := append(append([]string{}, designated...), filepath.Join(proj, ".spok"))
		f.RemoveErrPath = targets[c.RemoveErr%len(targets)]
	}
	protect := []string{filepath.Join(proj, "spokfile"), proj}
	args := []string{"--clean"}
	switch c.Spokfile {
	case "abs":
		args = append(args, "--spokfile", filepath.Join(logical, "spokfile"))
	case "rel":
		relp, err := filepath.Rel(cwd, filepath.Join(logical, "spokfile"))
		must(err)
		if !strings.Contains(relp, "/") && c.Prog.Layout%2 == 0 {
			relp = "./" + relp
		}
		args = append(args, "--spokfile", relp)
		res.count("probe:relative_spokfile_flag")
	}
	obs := w.Invoke(Invocation{Args: args, Cwd: cwd, Env: env, Inv: inv, Sched: Sched{Policy: "fifo"}, Faults: f, Protect: protect})
	res.Ops++
	post := Snap(w.Home)
	created, removed, changed := pre.Diff(post)
	logDelta := strings.Fields(strings.TrimPrefix(readFileOr(w.Log, ""), logBefore))
	faultFired := len(obs.Fired) > 0
	for _, fd := range obs.Fired {
		res.count("fault_fired:" + fd)
	}
	sort.Strings(obs.Removed)
	sort.Strings(obs.Vetoed)
	if obs.Failed {
		// how far spok got before the error follows Go map iteration order inside spok:
		// the predicates below do not depend on it, and the event log must not either
		res.event("clean cwd=%q failed=true vetoed=%v fired=%v log=%v", c.Cwd, relAll(w, obs.Vetoed), obs.Fired, logDelta)
	} else {
		res.event("clean cwd=%q failed=false vetoed=%v asked=%v removed=%v created=%v changed=%v log=%v fired=%v", c.Cwd, relAll(w, obs.Vetoed), relAll(w, obs.Removed), removed, created, changed, logDelta, obs.Fired)
	}
	if obs.Out.Panic != "" || obs.Out.Deadlock {
		res.Abandoned = "C18: --clean ended abnormally: " + short(obs.Out.Panic, 200)
		return res
	}
	var ks []string
	for k := range kinds {
		ks = append(ks, k)
	}
	sort.Strings(ks)
	res.distinct(fmt.Sprintf("%v|clean%v|cwd%q|home%v|spokfile-%s|via%v%v|fault%v|failed%v", ks, hasClean, c.Cwd, c.FromHome, c.Spokfile, c.ViaLink, c.RealVars, faultFired, obs.Failed))
	sig := fmt.Sprintf("clean:%v", ks)

	// ---- the protected set is never touched (detected before the deletion happens)
	if len(obs.Vetoed) > 0 {
		res.violate("C12", "never-removes-the-project", sig, "--clean tried to remove %v (the spokfile, the directory containing it, an ancestor, or a path outside the sandbox); outputs evaluate to %v", relAll(w, obs.Vetoed), relAll(w, append(designated, protectedHit...)))
		return res
	}
	if len(protectedHit) > 0 {
		res.count("probe:output_evaluates_to_protected_path")
		res.count("accept_either:protected_output_error_or_ignore")
	}

	if hasClean {
		res.count("probe:user_clean_task")
		// the user's task runs instead and spok itself removes nothing
		if len(obs.Removed) > 0 {
			res.violate("C12", "clean-task-runs-instead", sig, "a task named clean exists, yet spok itself removed %v", relAll(w, obs.Removed))
		}
		ranClean := false
		for _, m := range logDelta {
			if strings.HasPrefix(m, "clean.") {
				ranClean = true
			}
		}
		if !ranClean && !obs.Failed {
			res.violate("C12", "clean-task-runs-instead", sig, "a task named clean exists but its commands did not run (log %v)", logDelta)
		}
		for _, p := range append(append(created, removed...), changed...) {
			if !under(p, cacheRel) {
				res.violate("C12", "clean-task-runs-instead", sig, "with a user clean task (side-effect free here) %q was created/removed/changed", p)
				break
			}
		}
		return res
	}

	// ---- nothing outside the designated set (and the cache) disappears; nothing is created or modified
	for _, p := range removed {
		if !allowed(p) && tolerated(p) {
			res.count("accept_either:directory_matching_an_output_glob_or_file_behind_a_directory_link_removed")
			continue
		}
		if !allowed(p) {
			res.violate("C12", "removes-nothing-else", sig, "--clean removed %q which is neither a declared output %v nor the cache", p, relAll(w, designated))
			return res
		}
	}
	for _, p := range append(created, changed...) {
		if under(p, cacheRel) {
			continue
		}
		res.violate("C12", "removes-nothing-else", sig, "--clean created or modified %q", p)
		return res
	}
	switch {
	case faultFired:
		if !obs.Failed {
			res.violate("C12", "removal-failure-is-reported", sig, "removing a declared output failed (EACCES) but --clean reported success")
		}
	case obs.Failed:
		if len(protectedHit) == 0 {
			res.Abandoned = "--clean failed without an injected fault or a protected output: " + short(obs.ErrText, 200)
		}
	default:
		// success: every designated path that existed is gone, and so is the cache
		for p := range pre {
			if allowed(p) {
				if _, still := post[p]; still {
					res.violate("C12", "removes-every-declared-output", sig, "--clean succeeded but %q (declared output or cache; outputs %v) still exists", p, relAll(w, designated))
					return res
				}
			}
		}
		if len(designated) > 0 {
			res.count("probe:outputs_removed")
		}
		if kinds["glob"] {
			res.count("probe:output_glob_declared")
		}
	}
	return res
}

func relAll(w *World, ps []string) []string {
	out := make([]string, len(ps))
	for i, p := range ps {
		out[i] = rel(w, p)
	}
	return out
}

func (cleanScen) Shrinks(cc any) []any {
	c := cc.(*CleanCase)
	var out []any
	add := func(f func(n *CleanCase)) {
		n := cloneJSON(*c)
		f(&n)
		out = append(out, &n)
	}
	if c.PreCrash > 0 {
		add(func(n *CleanCase) { n.PreCrash = 0 })
	}
	if len(c.PreRun) > 0 {
		add(func(n *CleanCase) { n.PreRun = nil })
	}
	if c.RemoveErr >= 0 {
		add(func(n *CleanCase) { n.RemoveErr = -1 })
	}
	if c.Cwd != "" {
		add(func(n *CleanCase) { n.Cwd = "" })
	}
	if c.Spokfile != "" {
		add(func(n *CleanCase) { n.Spokfile = ""; n.FromHome = false })
	}
	for ti := range c.Prog.Tasks {
		if len(c.Prog.Tasks) > 1 {
			add(func(n *CleanCase) {
				n.Prog.Tasks = append(n.Prog.Tasks[:ti:ti], n.Prog.Tasks[ti+1:]...)
				if len(n.PreRun) > 0 && n.Prog.Task(n.PreRun[0]) == nil {
					n.PreRun = nil
				}
			})
		}
		for oi := range c.Prog.Tasks[ti].Outs {
			add(func(n *CleanCase) {
				o := n.Prog.Tasks[ti].Outs
				n.Prog.Tasks[ti].Outs = append(o[:oi:oi], o[oi+1:]...)
			})
		}
		if len(c.Prog.Tasks[ti].Deps) > 0 {
			add(func(n *CleanCase) { n.Prog.Tasks[ti].Deps = nil })
		}
	}
	for vi := range c.Prog.Vars {
		used := false
		for _, t := range c.Prog.Tasks {
			for _, o := range t.Outs {
				if o.Kind == "named" && o.Value == c.Prog.Vars[vi].Name {
					used = true
				}
			}
		}
		if !used {
			add(func(n *CleanCase) { n.Prog.Vars = append(n.Prog.Vars[:vi:vi], n.Prog.Vars[vi+1:]...) })
		}
	}
	for _, f := range sortedKeys(c.Tree) {
		add(func(n *CleanCase) { delete(n.Tree, f) })
	}
	for _, l := range sortedKeys(c.Links) {
		add(func(n *CleanCase) { delete(n.Links, l) })
	}
	for i := range c.Dirs {
		add(func(n *CleanCase) { n.Dirs = append(n.Dirs[:i:i], n.Dirs[i+1:]...) })
	}
	if c.Prog.Layout != 0 {
		add(func(n *CleanCase) { n.Prog.Layout = 0 })
	}
	return out
}
