#!/usr/bin/env python3
"""Regenerates MANIFEST.json from props.py + manifest_text.py (kept in one place so the two never drift)."""
import json, subprocess, sys, os
sys.path.insert(0, os.path.dirname(os.path.abspath(__file__)))
from props import PROPS
from manifest_text import TEXT, NOT_APPLICABLE, PENDING

hooks = subprocess.run(["git", "-C", "/repo", "log", "--format=%H %s"], capture_output=True, text=True).stdout.splitlines()
hook_commits = [l.split()[0] for l in hooks if l.split(" ", 1)[1].startswith("simhook:")]
checks = []
for pid in sorted(PROPS):
    cfg = PROPS[pid]
    t = TEXT[pid]
    checks.append({
        "property_id": pid,
        "quick_cmd": "./check %s quick" % pid,
        "thorough_cmd": "./check %s thorough" % pid,
        "evidence_file": "/verif/evidence/%s.json" % pid,
        "replay_cmd_template": "./check %s --replay {path}" % pid,
        "engine": "spoksim",
        "level_claimed": {"category": cfg["level"], "text": t["level_text"], "design_ref": t["design_ref"]},
        "level_note": t["level_note"],
        "technique": t["technique"],
    })
na = [{"property_id": k, "reason": v} for k, v in sorted(NOT_APPLICABLE.items())]
na += [{"property_id": k, "reason": v} for k, v in sorted(PENDING.items()) if k not in PROPS]
m = {
    "version": 1,
    "setup_cmd": "./check --setup",
    "hooks": {
        "guard": "verif",
        "enable": "go build tag: the checks build /verif/sim (module verifsim, replace github.com/FollowTheProcess/spok => /repo) with `go1.26.8 test -c -tags verif`; package /repo/simhook is a set of empty inlinable functions without the tag",
        "baseline_off_cmd": "cd /repo && GOFLAGS=-mod=mod GOPROXY=off GOSUMDB=off go test -json -vet=off -count=1 -timeout 25m ./...",
        "source_commits": hook_commits,
        "add_only": True,
    },
    "engines": [{"name": "spoksim", "path": "/verif/sim", "serves_properties": sorted(PROPS),
                 "kind_free_text": "deterministic simulator: Go test binary (go1.26.8, testing/synctest bubbles) with a seeded scheduler over simhook.Yield points, crash/tear/I-O fault injection through simhook, instrumented dag copy for map-iteration order, reference models as oracles; driver /verif/check (python3) runs 16 worker processes with disjoint run indices and CPU-affinity classes 1/2/4/16"}],
    "checks": checks,
    "not_applicable": na,
    "notes": "Exit 2 = build/harness trouble (never a VIOLATION line). Replays are written to /verif/replays/. Known findings: /verif/known_findings.json.",
}
json.dump(m, open(os.path.join(os.path.dirname(os.path.abspath(__file__)), "MANIFEST.json"), "w"), indent=1)
print("MANIFEST.json: %d checks, %d not applicable" % (len(checks), len(na)))
