#!/usr/bin/env python3
"""Prints the markdown table of DESIGN.md section 14 from /verif/seeded/*/meta.json."""
import json, os
V = os.path.dirname(os.path.dirname(os.path.abspath(__file__)))
print("| seeded change | breaks | needs, in order to manifest | caught by (quick tier) | first violated predicate |")
print("|---|---|---|---|---|")
for name in sorted(os.listdir(os.path.join(V, "seeded"))):
    mp = os.path.join(V, "seeded", name, "meta.json")
    if not os.path.exists(mp):
        continue
    m = json.load(open(mp))
    caught = [p for p, c in m.get("checks", {}).items() if c.get("caught")]
    missed = [p for p, c in m.get("checks", {}).items() if not c.get("caught")]
    pred = ""
    for p in caught:
        d = m["checks"][p]["detail"]
        if d.startswith("violated predicate: "):
            pred = d[len("violated predicate: "):].split(" | ")[0]
            break
    c = ", ".join(caught) if caught else ("none: " + m["judged"].split(":")[0] if m.get("judged") else "**none**")
    if missed:
        c += " (not by " + ", ".join(missed) + ")"
    print("| `%s` | %s | %s | %s | %s |" % (name, m["breaks_property"], m.get("needs_to_manifest", "").replace("|", "/"), c, pred))
