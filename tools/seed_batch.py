#!/usr/bin/env python3
"""Confirm and file every sub-agent deliverable /tmp/mut/out/<PROP>-<suffix>/ of one wave.
   tools/seed_batch.py <suffix> [PROP ...]     (uses tools/seed.py; extra checks via CHECKS_<PROP>=C12,C05 env)"""
import os, re, subprocess, sys
suffix = sys.argv[1]
only = sys.argv[2:]
V = os.path.dirname(os.path.dirname(os.path.abspath(__file__)))
for d in sorted(os.listdir("/tmp/mut/out")):
    m = re.fullmatch(r"(C\d\d)-" + re.escape(suffix), d)
    if not m:
        continue
    prop = m.group(1)
    if only and prop not in only:
        continue
    out = os.path.join("/tmp/mut/out", d)
    if not os.path.exists(os.path.join(out, "patch.diff")):
        print("%s: no patch.diff yet" % d)
        continue
    files = re.findall(r"^\+\+\+ b/(\S+)", open(os.path.join(out, "patch.diff")).read(), re.M)
    slug = "-".join(sorted(set(os.path.splitext(os.path.basename(f))[0] for f in files)))[:40]
    notes = open(os.path.join(out, "notes.md")).read() if os.path.exists(os.path.join(out, "notes.md")) else ""
    needs = ""
    paras = re.split(r"\n\s*\n", notes)
    for i, para in enumerate(paras):
        if re.search(r"manifest|trigger|needs|only (shows|when|if)|takes to", para, re.I):
            body = re.sub(r"^#+[^\n]*\n?", "", para.strip())  # a heading on its own: the text is the next paragraph
            if not body.strip() and i + 1 < len(paras):
                body = paras[i + 1]
            needs = " ".join(body.split())[:400]
            break
    name = "%s-%s-%s" % (prop, suffix, slug)
    cmd = [os.path.join(V, "tools", "seed.py"), name, out, "--prop", prop, "--needs", needs or "see notes.md",
           "--checks", os.environ.get("CHECKS_" + prop, prop)]
    if os.path.exists(os.path.join(out, "demo_test.go")):
        pkg = re.search(r"^package (\w+)", open(os.path.join(out, "demo_test.go")).read(), re.M).group(1)
        pkg = pkg[:-5] if pkg.endswith("_test") else pkg
        pkgdir = {"app": "cli/app", "cmd": "cli/cmd", "main": "cmd/spok"}.get(pkg, pkg)
        cmd += ["--demo-pkg", pkgdir, "--demo-run", "Demo|C[0-9][0-9]"]
    else:
        cmd += ["--demo-sh"]
    r = subprocess.run(cmd, capture_output=True, text=True)
    lines = [l for l in r.stdout.splitlines() if l.startswith("demo without") or l.startswith("check ")]
    print("== %s" % name)
    for l in lines:
        print("   " + l[:230])
    if r.returncode not in (0, 1) or not lines:
        print(r.stdout[-800:], r.stderr[-400:])
