#!/usr/bin/env python3
"""Run the registered checks against /repo's HEAD + a patch, without touching /repo.

  tools/try_mutation.py <patch.diff> [--tier quick|thorough] [--seed N] [PROP ...]

Creates a scratch worktree of /repo (outside /repo and /verif), applies the patch, confirms that it
builds and that the baseline suite still passes, runs the checks with VERIF_REPO pointing at the
worktree (evidence and replays go to a scratch directory, never to /verif/evidence), prints one line
per property and a JSON summary, and removes the worktree.
"""
import json, os, shutil, subprocess, sys, tempfile, time

VERIF = os.path.dirname(os.path.dirname(os.path.abspath(__file__)))
sys.path.insert(0, VERIF)
from props import PROPS


def main():
    args = sys.argv[1:]
    tier, seed = "quick", "1"
    if "--tier" in args:
        i = args.index("--tier"); tier = args[i + 1]; del args[i:i + 2]
    if "--seed" in args:
        i = args.index("--seed"); seed = args[i + 1]; del args[i:i + 2]
    keep = "--keep" in args
    if keep:
        args.remove("--keep")
    patch = os.path.abspath(args[0])
    props = args[1:] or sorted(PROPS)
    base = tempfile.mkdtemp(prefix="mutrun.", dir="/tmp")
    wt = os.path.join(base, "repo")
    env = dict(os.environ, GOFLAGS="-mod=mod", GOPROXY="off", GOSUMDB="off", GOTOOLCHAIN="local")
    out = {"patch": patch, "tier": tier, "seed": seed, "results": {}}
    try:
        subprocess.run(["git", "-C", "/repo", "worktree", "add", "-q", "--detach", wt, "HEAD"], check=True)
        r = subprocess.run(["git", "-C", wt, "apply", patch], capture_output=True, text=True)
        if r.returncode != 0:
            print("patch does not apply:", r.stderr)
            return 2
        r = subprocess.run(["go", "build", "./..."], cwd=wt, env=env, capture_output=True, text=True)
        out["builds"] = r.returncode == 0
        r2 = subprocess.run(["go", "test", "-vet=off", "-count=1", "./..."], cwd=wt, env=env, capture_output=True, text=True)
        out["baseline_passes"] = r2.returncode == 0
        print("builds=%s baseline_passes=%s" % (out["builds"], out["baseline_passes"]))
        if not out["builds"]:
            print(r.stderr[-2000:])
            return 2
        if not out["baseline_passes"]:
            print(r2.stdout[-3000:])
        for p in props:
            e = dict(env, VERIF_REPO=wt, VERIF_EVIDENCE_DIR=os.path.join(base, "evidence"), VERIF_REPLAY_DIR=os.path.join(base, "replays"), VERIF_SEED=seed)
            t0 = time.time()
            r = subprocess.run([os.path.join(VERIF, "check"), p, tier], cwd=VERIF, env=e, capture_output=True, text=True)
            lines = [l for l in r.stdout.splitlines() if l.strip()]
            verdict = {0: "pass", 1: "VIOLATION", 2: "harness-error"}.get(r.returncode, "exit%d" % r.returncode)
            pred = next((l for l in lines if l.startswith("violated predicate")), "")
            msg = ""
            if r.returncode == 1:
                k = next((i for i, l in enumerate(lines) if l.startswith("violated predicate")), 0)
                msg = " | ".join(lines[k:k + 3])[:600]
            elif r.returncode == 2:
                msg = " | ".join(lines[-4:])[:600]
            out["results"][p] = {"verdict": verdict, "exit": r.returncode, "wall_s": round(time.time() - t0, 1), "detail": msg}
            print("%s %-13s %5.1fs %s" % (p, verdict, time.time() - t0, msg))
            if r.returncode == 1 and keep:
                os.makedirs("/tmp/mutkeep", exist_ok=True)
                for f in os.listdir(os.path.join(base, "replays")):
                    shutil.copy(os.path.join(base, "replays", f), "/tmp/mutkeep/")
        print(json.dumps(out))
        return 0
    finally:
        subprocess.run(["git", "-C", "/repo", "worktree", "remove", "--force", wt], capture_output=True)
        shutil.rmtree(base, ignore_errors=True)


if __name__ == "__main__":
    sys.exit(main())
