#!/usr/bin/env python3
"""Confirm a seeded change produced by a sub-agent and file it under /verif/seeded/<name>/.

  tools/seed.py <name> <agent-outdir> --prop C17 [--demo-pkg file | --demo-sh] [--checks C17,C03] [--needs "text"]

In a scratch worktree of /repo HEAD (outside /repo and /verif; removed afterwards) it confirms that
  1. the demonstration PASSES without the patch,
  2. the patch applies, builds, and the unedited baseline suite passes,
  3. the demonstration FAILS with the patch,
then runs the listed checks (quick tier) against the patched worktree and writes
/verif/seeded/<name>/{patch.diff, demo_test.go|demo.sh, notes.md, meta.json}.
"""
import json, os, shutil, subprocess, sys, tempfile, time

VERIF = os.path.dirname(os.path.dirname(os.path.abspath(__file__)))
sys.path.insert(0, VERIF)
from props import PROPS

ENV = dict(os.environ, GOFLAGS="-mod=mod", GOPROXY="off", GOSUMDB="off", GOTOOLCHAIN="local")


def run(cmd, cwd, env=ENV, timeout=1200):
    r = subprocess.run(cmd, cwd=cwd, env=env, capture_output=True, text=True, timeout=timeout)
    return r.returncode, (r.stdout + r.stderr)


def main():
    a = sys.argv[1:]
    name, outdir = a[0], a[1]
    def opt(flag, default=None):
        if flag in a:
            return a[a.index(flag) + 1]
        return default
    prop = opt("--prop")
    demo_pkg = opt("--demo-pkg")
    checks = (opt("--checks") or prop).split(",")
    needs = opt("--needs", "")
    tier = opt("--tier", "quick")
    patch = os.path.join(outdir, "patch.diff")
    base = tempfile.mkdtemp(prefix="seed.", dir="/tmp")
    wt = os.path.join(base, "repo")
    meta = {"name": name, "breaks_property": prop, "needs_to_manifest": needs, "ran": []}
    try:
        subprocess.run(["git", "-C", "/repo", "worktree", "add", "-q", "--detach", wt, "HEAD"], check=True)
        meta["repo_head"] = subprocess.run(["git", "-C", "/repo", "rev-parse", "--short", "HEAD"], capture_output=True, text=True).stdout.strip()
        if demo_pkg:
            demo_src = os.path.join(outdir, "demo_test.go")
            demo_dst = os.path.join(wt, demo_pkg, "zz_seed_demo_test.go")
            shutil.copy(demo_src, demo_dst)
            demo_cmd = ["go", "test", "-vet=off", "-count=1", "-run", opt("--demo-run", "Demo"), "./" + demo_pkg + "/"]
            demo_cwd = wt
        else:
            demo_src = os.path.join(outdir, "demo.sh")
            demo_cmd = ["bash", demo_src, wt]
            demo_cwd = base
        rc0, out0 = run(demo_cmd, demo_cwd)
        meta["ran"].append({"cmd": " ".join(demo_cmd) + "   # without the patch", "exit": rc0})
        rc, out = run(["git", "apply", patch], wt)
        if rc != 0:
            print("patch does not apply", out); return 2
        rcb, outb = run(["go", "build", "./..."], wt)
        if demo_pkg:
            os.rename(demo_dst, demo_dst + ".off")
        rct, outt = run(["go", "test", "-vet=off", "-count=1", "./..."], wt)
        if demo_pkg:
            os.rename(demo_dst + ".off", demo_dst)
        meta["ran"].append({"cmd": "go build ./... && go test -vet=off -count=1 ./...   # with the patch, unedited suite", "exit": rcb or rct})
        rc1, out1 = run(demo_cmd, demo_cwd)
        meta["ran"].append({"cmd": " ".join(demo_cmd) + "   # with the patch", "exit": rc1})
        ok = rc0 == 0 and rcb == 0 and rct == 0 and rc1 != 0
        meta["confirmed"] = ok
        print("demo without patch: exit %d; build %d; suite %d; demo with patch: exit %d => confirmed=%s" % (rc0, rcb, rct, rc1, ok))
        if not ok:
            print((out0 if rc0 else "")[-1500:], (outt if rct else "")[-1500:], (out1 if rc1 == 0 else "")[-500:])
        if demo_pkg:
            os.remove(demo_dst)
        meta["checks"] = {}
        for p in checks:
            e = dict(ENV, VERIF_REPO=wt, VERIF_EVIDENCE_DIR=os.path.join(base, "evidence"), VERIF_REPLAY_DIR=os.path.join(base, "replays"))
            t0 = time.time()
            r = subprocess.run([os.path.join(VERIF, "check"), p, tier], cwd=VERIF, env=e, capture_output=True, text=True)
            lines = [l for l in r.stdout.splitlines() if l.strip()]
            k = next((i for i, l in enumerate(lines) if l.startswith("violated predicate")), None)
            detail = " | ".join(lines[k:k + 2])[:500] if k is not None else " | ".join(lines[-2:])[:500]
            meta["checks"][p] = {"tier": tier, "exit": r.returncode, "caught": r.returncode == 1, "wall_s": round(time.time() - t0, 1), "detail": detail}
            print("check %s %s: exit %d  %s" % (p, tier, r.returncode, detail))
        if ok:
            dst = os.path.join(VERIF, "seeded", name)
            os.makedirs(dst, exist_ok=True)
            shutil.copy(patch, os.path.join(dst, "patch.diff"))
            shutil.copy(demo_src, os.path.join(dst, os.path.basename(demo_src)))
            if os.path.exists(os.path.join(outdir, "notes.md")):
                shutil.copy(os.path.join(outdir, "notes.md"), os.path.join(dst, "notes.md"))
            if demo_pkg:
                meta["demo"] = "copy demo_test.go into %s/ of the repo and run: go test -vet=off -count=1 -run %s ./%s/" % (demo_pkg, opt("--demo-run", "Demo"), demo_pkg)
            else:
                meta["demo"] = "bash demo.sh <path to spok source tree>"
            json.dump(meta, open(os.path.join(dst, "meta.json"), "w"), indent=1)
            print("filed under", dst)
        return 0 if ok else 1
    finally:
        subprocess.run(["git", "-C", "/repo", "worktree", "remove", "--force", wt], capture_output=True)
        shutil.rmtree(base, ignore_errors=True)


if __name__ == "__main__":
    sys.exit(main())
