#!/usr/bin/env python3
"""Re-run the registered checks against every seeded change under /verif/seeded/ (HEAD + patch in a
scratch worktree) and refresh the "checks" section of its meta.json.   tools/refresh_seeded.py [name-prefix ...]"""
import json, os, shutil, subprocess, sys, tempfile, time
VERIF = os.path.dirname(os.path.dirname(os.path.abspath(__file__)))
ENV = dict(os.environ, GOFLAGS="-mod=mod", GOPROXY="off", GOSUMDB="off", GOTOOLCHAIN="local")
sel = sys.argv[1:]
rows = []
for name in sorted(os.listdir(os.path.join(VERIF, "seeded"))):
    d = os.path.join(VERIF, "seeded", name)
    mp = os.path.join(d, "meta.json")
    if not os.path.exists(mp) or (sel and not any(name.startswith(s) for s in sel)):
        continue
    meta = json.load(open(mp))
    base = tempfile.mkdtemp(prefix="reseed.", dir="/tmp")
    wt = os.path.join(base, "repo")
    try:
        subprocess.run(["git", "-C", "/repo", "worktree", "add", "-q", "--detach", wt, "HEAD"], check=True)
        r = subprocess.run(["git", "-C", wt, "apply", os.path.join(d, "patch.diff")], capture_output=True, text=True)
        if r.returncode != 0:
            rows.append((name, "PATCH DOES NOT APPLY"))
            continue
        meta["repo_head"] = subprocess.run(["git", "-C", "/repo", "rev-parse", "--short", "HEAD"], capture_output=True, text=True).stdout.strip()
        for p in list(meta.get("checks", {})) or [meta["breaks_property"]]:
            e = dict(ENV, VERIF_REPO=wt, VERIF_EVIDENCE_DIR=os.path.join(base, "evidence"), VERIF_REPLAY_DIR=os.path.join(base, "replays"))
            t0 = time.time()
            r = subprocess.run([os.path.join(VERIF, "check"), p, "quick"], cwd=VERIF, env=e, capture_output=True, text=True)
            lines = [l for l in r.stdout.splitlines() if l.strip()]
            k = next((i for i, l in enumerate(lines) if l.startswith("violated predicate")), None)
            detail = " | ".join(lines[k:k + 2])[:500] if k is not None else " | ".join(lines[-2:])[:500]
            meta.setdefault("checks", {})[p] = {"tier": "quick", "exit": r.returncode, "caught": r.returncode == 1, "wall_s": round(time.time() - t0, 1), "detail": detail}
            rows.append((name, "%s exit=%d %s" % (p, r.returncode, detail[:140])))
        json.dump(meta, open(mp, "w"), indent=1)
    finally:
        subprocess.run(["git", "-C", "/repo", "worktree", "remove", "--force", wt], capture_output=True)
        shutil.rmtree(base, ignore_errors=True)
for n, r in rows:
    print("%-45s %s" % (n, r))
