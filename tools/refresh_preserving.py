#!/usr/bin/env python3
"""Re-run every registered quick check against each behaviour-preserving refactor under /verif/seeded/preserving/
(HEAD + patch in a scratch worktree). Every check must pass; prints a line per (refactor, property) that does not."""
import json, os, shutil, subprocess, sys, tempfile
V = os.path.dirname(os.path.dirname(os.path.abspath(__file__)))
sys.path.insert(0, V)
from props import PROPS
ENV = dict(os.environ, GOFLAGS="-mod=mod", GOPROXY="off", GOSUMDB="off", GOTOOLCHAIN="local")
base_dir = os.path.join(V, "seeded", "preserving")
bad = 0
for name in sorted(os.listdir(base_dir)):
    if sys.argv[1:] and not any(name.startswith(a) for a in sys.argv[1:]):
        continue
    d = os.path.join(base_dir, name)
    base = tempfile.mkdtemp(prefix="pres.", dir="/tmp")
    wt = os.path.join(base, "repo")
    try:
        subprocess.run(["git", "-C", "/repo", "worktree", "add", "-q", "--detach", wt, "HEAD"], check=True)
        r = subprocess.run(["git", "-C", wt, "apply", os.path.join(d, "patch.diff")], capture_output=True, text=True)
        if r.returncode != 0:
            print("%-50s PATCH DOES NOT APPLY on HEAD (needs a rebase)" % name)
            continue
        meta = json.load(open(os.path.join(d, "meta.json")))
        for p in sorted(PROPS):
            e = dict(ENV, VERIF_REPO=wt, VERIF_EVIDENCE_DIR=os.path.join(base, "ev"), VERIF_REPLAY_DIR=os.path.join(base, "rep"))
            r = subprocess.run([os.path.join(V, "check"), p, "quick"], cwd=V, env=e, capture_output=True, text=True)
            meta["checks"][p] = {"tier": "quick", "exit": r.returncode, "caught": r.returncode == 1}
            if r.returncode != 0:
                bad += 1
                print("%-50s %s exit=%d  %s" % (name, p, r.returncode, " | ".join(r.stdout.splitlines()[-3:])[:300]))
        meta["false_alarms"] = sum(1 for c in meta["checks"].values() if c["exit"] != 0)
        json.dump(meta, open(os.path.join(d, "meta.json"), "w"), indent=1)
        print("%-50s done, non-zero exits: %d" % (name, meta["false_alarms"]))
    finally:
        subprocess.run(["git", "-C", "/repo", "worktree", "remove", "--force", wt], capture_output=True)
        shutil.rmtree(base, ignore_errors=True)
sys.exit(1 if bad else 0)
