# Per-property configuration of the driver: scenario, level, fixed run counts per tier.
REAL = ["all packages of /repo except cmd/spok/main.go (in-process CLI via cmd.BuildRootCmd().Execute())", "mvdan.cc/sh interpreter (builtins only)",
        "doublestar", "godotenv", "kernel tmpfs as the disk"]
COMPONENTS_L2 = {
    "real": REAL,
    "instrumented_copy": ["github.com/FollowTheProcess/collections dag/set/queue (iteration order drawn from the simulator)"],
    "simulated": ["goroutine schedule of hash (seeded scheduler at simhook.Yield points)", "crash points / torn cache writes / I/O errors (simhook)",
                  "process environment, cwd, argv, std streams", "command outcomes (control scripts)", "NumCPU (CPU affinity of the worker process)"],
    "absent": ["network", "timers"],
}
COMPONENTS_HASH = {
    "real": ["spok/hash (hash.New().Hash called directly)", "kernel tmpfs as the disk"],
    "simulated": ["every channel rendezvous of the worker pool (seeded scheduler)", "open/read errors (simhook.Open/ReadErr)", "unlink at a scheduler step",
                  "NumCPU (CPU affinity of the worker process: 1, 2, 4, 16)"],
    "stubbed": [], "absent": ["network", "timers"],
}

PROPS = {
    "C04": {"scenario": "hashsched", "level": "exploration", "runs": {"quick": 12000, "thorough": 250000}, "components": COMPONENTS_HASH,
            "required_probes": ["completion_order_differs_from_list_order"],
            "assumptions": ["SHA-256 collisions do not occur", "the path universe is the generator's (no path embeds raw digest bytes)",
                            "every channel operation of hash.Hash is preceded by a simhook.Yield (otherwise the Go runtime orders it)"]},
    "C18": {"scenario": "hashsched", "level": "fault_enumeration", "runs": {"quick": 16000, "thorough": 300000}, "components": COMPONENTS_HASH,
            "crash_props": ["C18"], "termination_props": ["C18"],
            "required_probes": ["unlink_before-open", "unlink_after-read", "big_list"],
            "assumptions": ["a serialising scheduler cannot expose data races; those are looked for in the -race side mode under the real Go scheduler",
                            "unlink-after-open semantics are those of the Linux tmpfs"]},
}
