# Per-property configuration of the driver: scenario, level, fixed run counts per tier.
REAL = ["all packages of /repo except cmd/spok/main.go (in-process CLI via cmd.BuildRootCmd().Execute())", "mvdan.cc/sh interpreter (builtins only)",
        "doublestar", "godotenv", "kernel tmpfs as the disk"]
COMPONENTS_L2 = {
    "real": REAL,
    "instrumented_copy": ["github.com/FollowTheProcess/collections dag/set/queue (iteration order drawn from the simulator)"],
    "simulated": ["goroutine schedule of hash (seeded scheduler at simhook.Yield points)", "crash points / torn cache writes / I/O errors (simhook)",
                  "process environment, cwd, argv, std streams", "command outcomes (control scripts)", "NumCPU (CPU affinity of the worker process)"],
    "absent": ["network", "timers"],
}
COMPONENTS_HASH = {
    "real": ["spok/hash (hash.New().Hash called directly)", "kernel tmpfs as the disk"],
    "simulated": ["every channel rendezvous of the worker pool (seeded scheduler)", "open/read errors (simhook.Open/ReadErr)", "unlink at a scheduler step",
                  "NumCPU (CPU affinity of the worker process: 1, 2, 4, 16)"],
    "stubbed": [], "absent": ["network", "timers"],
}

PROPS = {
    "C04": {"scenario": "hashsched", "level": "exploration", "runs": {"quick": 12000, "thorough": 250000}, "components": COMPONENTS_HASH,
            "required_probes": ["completion_order_differs_from_list_order"],
            "assumptions": ["SHA-256 collisions do not occur", "the path universe is the generator's (no path embeds raw digest bytes)",
                            "every channel operation of hash.Hash is preceded by a simhook.Yield (otherwise the Go runtime orders it)"]},
    "C18": {"scenario": "hashsched", "level": "fault_enumeration", "runs": {"quick": 16000, "thorough": 300000}, "components": COMPONENTS_HASH,
            "crash_props": ["C18"], "termination_props": ["C18"],
            "required_probes": ["unlink_before-open", "unlink_after-read", "big_list"],
            "assumptions": ["a serialising scheduler cannot expose data races; those are looked for in the -race side mode under the real Go scheduler",
                            "unlink-after-open semantics are those of the Linux tmpfs"]},
    "C01": {"scenario": "cachehist", "level": "exploration", "runs": {"quick": 30000, "thorough": 800000}, "components": COMPONENTS_L2,
            "required_probes": ["legal_skip", "mixed_skipped_and_executed", "forced_success_on_edited_inputs"],
            "assumptions": ["task commands do not modify dependency files", "a skip is observed through --json's skipped flag, or in plain mode through the task being named on stdout while none of its commands ran; --quiet runs report nothing"]},
    "C02": {"scenario": "cachehist", "level": "exploration", "runs": {"quick": 30000, "thorough": 800000}, "components": COMPONENTS_L2,
            "required_probes": ["mandatory_skip_observed", "mixed_skipped_and_executed"],
            "assumptions": ["crash-free, disk-fault-free histories only (command failures and cache removal are part of the quantifier)"]},
    "C09": {"scenario": "cachehist", "level": "exploration", "runs": {"quick": 30000, "thorough": 800000}, "components": COMPONENTS_L2,
            "required_probes": ["legal_skip"],
            "assumptions": ["the process exit status is observed as cmd.Execute() returning an error (cmd/spok/main.go turns that into exit 1)"]},
    "C14": {"scenario": "cachehist", "level": "exploration", "runs": {"quick": 30000, "thorough": 800000}, "components": COMPONENTS_L2,
            "required_probes": ["forced_run", "forced_success_on_edited_inputs"],
            "assumptions": ["task commands do not modify dependency files"]},
    "C03": {"scenario": "graph", "level": "exploration", "runs": {"quick": 40000, "thorough": 1000000}, "components": COMPONENTS_L2,
            "required_probes": ["dag_permutation_drawn", "cycle_in_closure", "cycle_next_to_other_tasks", "skipped_task_in_closure", "expected_error"],
            "assumptions": ["the instrumented dag copy is iteration-order-equivalent to collections@v0.10.0 (differential self-test in setup)",
                            "an undefined dependency of a task outside the requested closure may or may not be an error"]},
    "C10": {"scenario": "crash", "level": "fault_enumeration", "runs": {"quick": 3000, "thorough": 80000}, "components": COMPONENTS_L2, "canary": 25,
            "required_probes": ["crash_after_a_completed_task", "explicit_cache_error_after_kill", "legal_skip"],
            "assumptions": ["a kill leaves every completed system call durable (no power loss)", "in-process a kill is a sentinel panic at a crash point; spok's only deferred calls (logger.Sync, file.Close) write no project state",
                            "crash points exist wherever the durable state or the set of completed commands changes; commands themselves are atomic at this level"]},
}
